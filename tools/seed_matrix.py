#!/venv/bin/python
"""Run checks against every seeded property-breaking change (seeded/<id>-<k>/patch.diff) on a scratch worktree of /repo HEAD
and record which check reports it. usage: seed_matrix.py [--tier quick] [--cross] [--out seeded/MATRIX.json] [seed ...]
--cross also runs every *other* property's check (cross detection); default is the seed's own property only.
The worktree lives under /tmp and is removed after each seed; nothing is ever applied to /repo itself."""
import json
import os
import re
import subprocess
import sys
import time

VERIF = os.path.dirname(os.path.dirname(os.path.abspath(__file__)))
WT = '/tmp/pfst-seedwt'


def sh(*a, **k):
    return subprocess.run(a, capture_output=True, text=True, **k)


def main():
    args = sys.argv[1:]
    tier = 'quick'
    cross = False
    out = os.path.join(VERIF, 'seeded', 'MATRIX.json')
    seeds = []
    while args:
        a = args.pop(0)
        if a == '--tier':
            tier = args.pop(0)
        elif a == '--cross':
            cross = True
        elif a == '--out':
            out = args.pop(0)
        else:
            seeds.append(a)
    if not seeds:
        seeds = sorted(d for d in os.listdir(os.path.join(VERIF, 'seeded')) if re.fullmatch(r'C\d\d-\d+', d))
    try:
        with open(out) as f:
            matrix = json.load(f)
    except (OSError, ValueError):
        matrix = {}
    head = sh('git', '-C', '/repo', 'rev-parse', '--short', 'HEAD').stdout.strip()
    allp = [f'C{i:02d}' for i in range(1, 21)]
    for s in seeds:
        patch = os.path.join(VERIF, 'seeded', s, 'patch.diff')
        sh('git', '-C', '/repo', 'worktree', 'remove', '--force', WT)
        r = sh('git', '-C', '/repo', 'worktree', 'add', '--detach', WT, 'HEAD')
        if r.returncode:
            print('worktree failed', r.stderr)
            return 2
        r = sh('git', '-C', WT, 'apply', patch)
        ent = matrix.setdefault(s, {})
        ent['repo_head'] = head
        if r.returncode:
            ent['applies'] = False
            print(s, 'PATCH DOES NOT APPLY')
        else:
            ent['applies'] = True
            own = s[:3]
            for p in ([own] + [q for q in allp if q != own] if cross else [own]):
                t0 = time.time()
                r = sh(os.path.join(VERIF, 'check'), p, '--tier', tier, '--repo', WT, '--no-evidence', cwd=VERIF)
                txt = r.stdout + r.stderr
                nv = len(re.findall(r'^VIOLATION', txt, re.M))
                m = re.search(r'new failures by symptom: (\{.*\})', txt)
                ent.setdefault('checks', {})[p] = {'tier': tier, 'exit': r.returncode, 'violation_lines': nv,
                                                   'symptoms': m.group(1)[:300] if m else '', 'wall_s': round(time.time() - t0, 1)}
                print(s, p, 'exit', r.returncode, 'violations', nv, (m.group(1)[:120] if m else ''), flush=True)
        sh('git', '-C', '/repo', 'worktree', 'remove', '--force', WT)
        with open(out, 'w') as f:
            json.dump(matrix, f, indent=1, sort_keys=True)
    sh('git', '-C', '/repo', 'worktree', 'prune')
    return 0


if __name__ == '__main__':
    sys.exit(main())
