#!/venv/bin/python
"""Regenerates /verif/MANIFEST.json from the property modules that exist (pfstmc/props/cXX.py)."""
import importlib, json, os, sys
sys.path.insert(0, '/verif'); sys.path.insert(0, '/repo/src')
props = [json.loads(l) for l in open('/verif/properties.jsonl')]
ids = [p['id'] for p in props]
checks, na = [], []
NA_REASONS = {}
for pid in ids:
    path = f'/verif/pfstmc/props/{pid.lower()}.py'
    if not os.path.exists(path):
        na.append({'property_id': pid, 'reason': NA_REASONS.get(pid, 'check not built yet in this round (planned: see DESIGN.md section 3); nothing is claimed for it')})
        continue
    m = importlib.import_module(f'pfstmc.props.{pid.lower()}')
    checks.append({
        'property_id': pid,
        'quick_cmd': f'./check {pid} --tier quick',
        'thorough_cmd': f'./check {pid} --tier thorough',
        'evidence_file': f'/verif/evidence/{pid}.json',
        'replay_cmd_template': f'./check {pid} --replay {{path}}',
        'engine': 'pfstmc',
        'level_claimed': {'category': m.LEVEL, 'text': m.LEVEL_TEXT, 'design_ref': f'DESIGN.md section 3, {pid}'},
        'level_note': m.LEVEL_NOTE,
        'technique': m.TECHNIQUE,
    })
man = {
 'version': 1,
 'setup_cmd': 'cd /verif && /venv/bin/python -m pfstmc.selftest',
 'hooks': {'guard': 'PFST_VERIF', 'enable': 'none needed: checks import fst from /repo/src (the current working tree, nothing to build) and instrument externally (sys.settrace, read-only module attributes)',
           'baseline_off_cmd': 'cd /repo && /venv/bin/python -m pytest -ra -q -p no:cacheprovider --timeout=900 --continue-on-collection-errors',
           'source_commits': [], 'add_only': True},
 'engines': [{'name': 'pfstmc', 'path': '/verif/pfstmc', 'serves_properties': [c['property_id'] for c in checks],
              'kind_free_text': 'hand-written bounded exhaustive explorer over the real pfst objects (enum / bfs over histories / deviation-bounded / thread-schedule engines); judges are CPython (ast, tokenize, symtable, re, compile) and small reference models'}],
 'checks': checks,
 'not_applicable': na,
 'notes': 'Approach and bounds: DESIGN.md. Genuine defects: known_findings.json (open = KNOWN-FINDING lines, fixed = repaired by a fix: commit in /repo). Seeded regressions used to test the checks: seeded/.',
}
json.dump(man, open('/verif/MANIFEST.json', 'w'), indent=1)
print(len(checks), 'checks,', len(na), 'not applicable')
