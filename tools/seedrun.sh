#!/bin/bash
# usage: seedrun.sh <patch.diff> <tier> <Cxx> [Cyy ...]   -- runs checks against a scratch worktree of /repo HEAD + patch
set -u
patch="$1"; tier="$2"; shift 2
name=$(echo "$patch" | tr '/.' '__')
wt=/tmp/mut/$name
mkdir -p /tmp/mut
git -C /repo worktree remove --force "$wt" >/dev/null 2>&1
git -C /repo worktree add --detach "$wt" HEAD >/dev/null 2>&1 || { echo "worktree failed"; exit 2; }
if ! git -C "$wt" apply "$patch"; then echo "PATCH DOES NOT APPLY: $patch"; git -C /repo worktree remove --force "$wt"; exit 2; fi
for p in "$@"; do
  out=$(cd /verif && ./check "$p" --tier "$tier" --repo "$wt" --no-evidence 2>&1)
  rc=$?
  nv=$(echo "$out" | grep -c '^VIOLATION')
  echo "== $patch :: $p $tier -> exit=$rc violations_printed=$nv"
  echo "$out" | grep -A3 '^VIOLATION' | head -8
  echo "$out" | tail -2 | head -1
done
git -C /repo worktree remove --force "$wt" >/dev/null 2>&1
