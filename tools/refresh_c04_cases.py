#!/venv/bin/python
"""Rebuild findings/C04-insert-cases.json and findings/C04-elif-cases.json from --dump-fails output of both tiers.
A failing case is attributed by its *request* only: zero-length insertion kinds with symptom comment-lost -> insert finding;
replace of a sole orelse statement by an 'if' -> elif finding. Anything else is printed and left out (it will be a VIOLATION).
usage: refresh_c04_cases.py <dump.json> [<dump.json> ...]   (run by hand during triage; checks never write these files)"""
import json
import os
import re
import sys

VERIF = os.path.dirname(os.path.dirname(os.path.abspath(__file__)))
u = {}
for p in sys.argv[1:]:
    u.update(json.load(open(p)))


def lastop(k):
    m = list(re.finditer(r'(?:^|[/|])(replace|insert|put_slice|remove|del_slice|append|prepend|extend|prextend) ', k))
    return k[m[-1].start(1):]


ins, el, other = {}, {}, {}
for k, v in u.items():
    lo = lastop(k)
    m = re.match(r'put_slice \S+ \S+ (\d+):(\d+) ', lo)
    zero = lo.split(' ')[0] in ('insert', 'append', 'prepend', 'extend', 'prextend') or (m and m.group(1) == m.group(2))
    if lo.startswith('replace') and ".orelse[0] 'if " in lo and v in ('comment-lost', 'line-outside-edited-element-changed'):
        el[k] = v
    elif v == 'comment-lost' and zero:
        ins[k] = v
    else:
        other[k] = v
json.dump(ins, open(os.path.join(VERIF, 'findings/C04-insert-cases.json'), 'w'), indent=0, sort_keys=True)
json.dump(el, open(os.path.join(VERIF, 'findings/C04-elif-cases.json'), 'w'), indent=0, sort_keys=True)
print(len(ins), 'insert cases;', len(el), 'elif cases;', len(other), 'left out:')
for k, v in list(other.items())[:40]:
    print('  ', v, '|', k[:260])
