#!/bin/bash
# usage: confirm_seed.sh <Cxx> <k> : confirm an agent-produced seeded change against /repo HEAD (+fix commits) and store it
id="$1"; k="$2"
srcdir=${SEEDSRC:-/tmp/seedout/$id/$k}
[ -f "$srcdir/patch.diff" ] || { echo "no patch $srcdir"; exit 2; }
wt=/tmp/mut/confirm_${id}_$k
mkdir -p /tmp/mut
git -C /repo worktree remove --force "$wt" >/dev/null 2>&1
git -C /repo worktree add --detach "$wt" HEAD >/dev/null 2>&1
cd "$wt"
PYTHONPATH=$wt/src timeout 600 /venv/bin/python "$srcdir/demo.py" >/tmp/mut/demo_${id}_${k}_clean.log 2>&1; clean_rc=$?
if ! git apply "$srcdir/patch.diff"; then echo "$id/$k PATCH-DOES-NOT-APPLY"; cd /; git -C /repo worktree remove --force "$wt"; exit 2; fi
PYTHONPATH=$wt/src timeout 600 /venv/bin/python "$srcdir/demo.py" >/tmp/mut/demo_${id}_${k}_patched.log 2>&1; patched_rc=$?
tests=$(PYTHONPATH=$wt/src timeout 900 /venv/bin/python -m pytest -q -p no:cacheprovider --timeout=900 --continue-on-collection-errors tests 2>&1 | tail -1)
failed=$(PYTHONPATH=$wt/src timeout 900 /venv/bin/python -m pytest -q -p no:cacheprovider --timeout=900 --continue-on-collection-errors tests 2>&1 | grep '^FAILED' | sed 's/ - .*//' | sort | tr '\n' ' ')
cd /
git -C /repo worktree remove --force "$wt" >/dev/null 2>&1
echo "$id/$k demo_clean_rc=$clean_rc demo_patched_rc=$patched_rc tests='$tests' failed='$failed'"
base_failed="FAILED tests/doctests/test_misc_non_expr_compatible_coerce.txt::test_misc_non_expr_compatible_coerce.txt FAILED tests/test_one.py::TestFSTPut::test_get_format_spec FAILED tests/test_one.py::TestFSTPut::test_get_one_special "
if [ "$clean_rc" = 0 ] && [ "$patched_rc" != 0 ] && [ "$failed" = "$base_failed" ] && echo "$tests" | grep -q "304 passed"; then
  d=/verif/seeded/$id-$k; mkdir -p "$d"
  cp "$srcdir/patch.diff" "$srcdir/demo.py" "$d/"
  /venv/bin/python - "$srcdir/meta.json" "$d/meta.json" "$tests" <<'PY'
import json,sys
try: m=json.load(open(sys.argv[1]))
except Exception: m={}
m['confirmed']={'by':'tools/confirm_seed.sh on a scratch worktree of /repo HEAD (including fix: commits)','tests':sys.argv[3],'demo_unpatched_exit':0,'demo_patched_exit':'non-zero','ran':['git apply patch.diff','pytest tests (same pass/fail set as baseline)','demo.py with and without patch']}
json.dump(m,open(sys.argv[2],'w'),indent=1)
PY
  echo "$id/$k CONFIRMED -> $d"
else
  echo "$id/$k NOT-CONFIRMED"
fi
