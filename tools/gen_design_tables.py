#!/venv/bin/python
"""Refresh the generated tables of DESIGN.md (between <!-- BEGIN:AUTO-x --> / <!-- END:AUTO-x --> markers) from the property
modules, the committed evidence, known_findings.json and seeded/MATRIX.json."""
import importlib
import json
import os
import re
import sys

VERIF = os.path.dirname(os.path.dirname(os.path.abspath(__file__)))
sys.path.insert(0, VERIF)


def block(s, name, body):
    a, b = f'<!-- BEGIN:AUTO-{name} -->', f'<!-- END:AUTO-{name} -->'
    i, j = s.index(a) + len(a), s.index(b)
    return s[:i] + '\n' + body.rstrip() + '\n' + s[j:]


def esc(t):
    return str(t).replace('|', '\\|').replace('\n', ' ')


def checks_table():
    rows = ['| id | technique (deciding step) | quick bound | thorough bound | last quick run: executions / transitions / states / traces vs model / distinct non-trivial |',
            '|---|---|---|---|---|']
    for i in range(1, 21):
        pid = f'C{i:02d}'
        m = importlib.import_module(f'pfstmc.props.c{i:02d}')
        try:
            with open(os.path.join(VERIF, 'evidence', pid + '.json')) as f:
                e = json.load(f)
        except OSError:
            e = {}
        mc = e.get('model_checking') or e.get('metrics') or {}
        flat = json.dumps(e)
        def num(key):
            mm = re.search(r'"%s": (\d+)' % key, flat)
            return mm.group(1) if mm else '-'
        nums = ' / '.join(num(k) for k in ('evaluations', 'transitions', 'states', 'traces_validated_against_impl', 'distinct_nontrivial'))
        rows.append(f"| {pid} | {esc(m.TECHNIQUE)} | {esc(m.BOUNDS.get('quick', ''))} | {esc(m.BOUNDS.get('thorough', ''))} | {nums} |")
    return '\n'.join(rows)


def findings_tables():
    with open(os.path.join(VERIF, 'known_findings.json')) as f:
        fs = json.load(f)['findings']
    out = ['**Repaired (`fix:` commits in /repo; entries `fixed:` in known_findings.json suppress nothing):**', '']
    for k in fs:
        if k['status'] == 'fixed':
            out.append(f"* `{k['id']}` — {k['line']}")
    out += ['', '**Open (printed as `KNOWN-FINDING:` lines; matched by exact case id or input-parameter selector plus exact symptom):**', '']
    for k in fs:
        if k['status'] == 'open':
            how = 'cases file ' + k['cases_file'] if k.get('cases_file') else \
                'selector ' + json.dumps(k['selector']) if k.get('selector') else f"{len(k.get('cases', []))} listed case(s)"
            sym = k.get('symptom') or ', '.join(k.get('symptoms', []))
            out.append(f"* `{k['id']}` ({k['property']}; symptom `{sym}`; {how}) — {k['what']}")
    return '\n'.join(out)


def seeds_table():
    try:
        with open(os.path.join(VERIF, 'seeded', 'MATRIX.json')) as f:
            mx = json.load(f)
    except OSError:
        return '*(seeded/MATRIX.json not generated yet)*'
    rows = ['| seed | what it breaks (file) | own check, quick tier | also reported by |', '|---|---|---|---|']
    for s in sorted(mx):
        ent = mx[s]
        try:
            with open(os.path.join(VERIF, 'seeded', s, 'meta.json')) as f:
                meta = json.load(f)
        except OSError:
            meta = {}
        summ = meta.get('summary', '')
        summ = summ[:160] + ('…' if len(summ) > 160 else '')
        own = s[:3]
        c = (ent.get('checks') or {}).get(own)
        if not ent.get('applies', True):
            v = 'patch no longer applies'
        elif not c:
            v = '-'
        else:
            v = (f"**reported** ({c['violation_lines']} VIOLATION lines; {c['symptoms'][:100]})" if c['exit'] == 1 else f"silent (exit {c['exit']})")
        if meta.get('status_after_fixes'):
            v += ' — ' + meta['status_after_fixes'][:140]
        others = [p for p, cc in sorted((ent.get('checks') or {}).items()) if p != own and cc['exit'] == 1]
        rows.append(f"| {s} | {esc(summ)} | {esc(v)} | {', '.join(others) or '-'} |")
    return '\n'.join(rows)


def main():
    p = os.path.join(VERIF, 'DESIGN.md')
    with open(p) as f:
        s = f.read()
    s = block(s, 'CHECKS', checks_table())
    s = block(s, 'FINDINGS', findings_tables())
    s = block(s, 'SEEDS', seeds_table())
    with open(p, 'w') as f:
        f.write(s)


if __name__ == '__main__':
    main()
