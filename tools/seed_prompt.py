#!/usr/bin/env python3
"""Print the prompt handed to a fresh sub-agent that is asked for a property-breaking change (seed).
usage: seed_prompt.py <Cxx> <k> [theme text]
The agent sees the property text, its scratch worktree and the places earlier seeds of this property already used
(file / function only, so that it looks elsewhere) - nothing about the checks."""
import json
import os
import re
import sys

VERIF = os.path.dirname(os.path.dirname(os.path.abspath(__file__)))

THEMES = {
    '6': ("Prefer a change that needs one of: (a) a sequence of three or more operations on the same tree before anything "
          "goes wrong (state carried between calls: caches, registries, positions fixed up lazily); (b) two cooperating "
          "sites that each look fine alone (a helper whose contract is narrowed slightly and one caller that relied on "
          "the old contract); (c) rarely used syntax (type aliases and type parameters with bounds/defaults, `except*`, "
          "`async` comprehensions, star patterns, nested f-strings with format specs, walrus in odd places, `global`/"
          "`nonlocal`, lambda defaults, decorators, semicolon-joined statements, line continuations, tabs / form feeds, "
          "multi-byte identifiers and strings, empty containers, single-element tuples, trailing commas); "
          "(d) a boundary size (empty list, one element, the last element, the first line, the last line without a "
          "newline)."),
    '7': ("Read the property sentence by sentence and choose the clause that ordinary tests are LEAST likely to exercise - a secondary "
          "API or entry point that the text names only once, a parenthetical, an 'also when ...' case, an option value other than the "
          "default, a node kind that appears in only one grammar rule - and break only that clause, leaving the main-line behaviour "
          "exactly as it is. The change should sit in a function that only that clause reaches (or in a branch of a shared function "
          "that only it takes)."),
    '8': ("Write the change as a performance optimisation a maintainer might add after profiling: an early exit, a fast path for the "
          "common case, a memoised / hoisted value, a cheaper comparison, skipping work 'that cannot matter' - correct for the common "
          "case and for everything the existing tests do, wrong under a specific condition (an uncommon node kind or layout, a second "
          "call that sees the stale value, an operand for which the fast-path test is true although the slow path would have done "
          "something). It should read as plausible and even carry a comment explaining why it is safe."),
    '9': ("Write the change as a clean-up refactoring: two near-duplicate code paths (the forward and the backward variant of a helper, "
          "get vs. cut, copy vs. in-place, the FST branch and the pure-AST branch of a conversion, the one-element and the slice variant "
          "of a put, the `def` / `async def` / `class` or `Tuple` / `List` / `Set` or `Import` / `ImportFrom` branches of a handler, the "
          "first-element / middle / last-element cases) are merged into one, or a special case is 'generalised' / a helper is reused "
          "where hand-written code stood - and a small asymmetry that one of the paths needed gets lost. Everything the paths had in "
          "common stays right; only the inputs that needed the lost asymmetry go wrong."),
    '10': ("The change must be wrong only for unusual but legal SOURCE TEXT and stay exactly right for ordinary black-style ASCII layout. "
           "Pick the layout feature from this list (or a similar one) and make the bug depend on it: tab or form-feed indentation; backslash "
           "line continuations (also inside the construct that is edited); semicolon-joined statements; comments in unusual places "
           "(between a decorator and its def, right after an opening bracket, between `elif` / `else` sections, after a backslash-free "
           "operator at a line end); a last line without newline, or lines with trailing whitespace; several blank lines or whitespace-only "
           "lines inside blocks; multi-byte identifiers / string contents before the edit position on the same line; nested f-strings "
           "re-using the quote character (3.12), f-string format specs, self-documenting `{x = }` fields; empty constructs (`()`, `{}`, "
           "`class C(): pass`, `def f(): ...`, `lambda: 0`); parenthesized targets / with-items / return values / decorators; code that "
           "is indented with 1, 2 or 8 columns instead of 4."),
}


def main():
    pid, k = sys.argv[1], sys.argv[2]
    theme = sys.argv[3] if len(sys.argv) > 3 else THEMES.get(k, '')
    prop = None
    with open(os.path.join(VERIF, 'properties.jsonl')) as f:
        for line in f:
            d = json.loads(line)
            if d['id'] == pid:
                prop = d
    used = []
    for d in sorted(os.listdir(os.path.join(VERIF, 'seeded'))):
        if d.startswith(pid + '-'):
            try:
                m = json.load(open(os.path.join(VERIF, 'seeded', d, 'meta.json')))
            except (OSError, ValueError):
                continue
            s = m.get('summary', '')
            mm = re.match(r'(.{0,160}?)(?::|\. |$)', s)
            used.append((mm.group(1) if mm else s[:160]).strip())
    wt = f'/tmp/seedwt/{pid}-{k}'
    out = f'/tmp/seedout/{pid}/{k}'
    title = prop.get('title') or prop.get('name')
    stmt = prop.get('statement') or prop.get('text')
    print(f"""You are helping to test a verification effort for the Python library `pfst` (package `fst`: format-preserving
editing of Python ASTs). Your job is to write ONE realistic bug: a small change to the library that breaks the property
below while the library still imports and its existing test suite still passes exactly as before.

PROPERTY {pid} — {title}
{stmt}

Your scratch copy of the repository is the git worktree {wt} (already created; work ONLY there; never touch /repo or
/verif, and do not read anything under /verif). Python is /venv/bin/python (3.12). Run things with
`cd {wt} && PYTHONPATH={wt}/src /venv/bin/python ...`. The test suite is
`cd {wt} && PYTHONPATH={wt}/src /venv/bin/python -m pytest -q -p no:cacheprovider --timeout=900 --continue-on-collection-errors tests`
and on the unchanged tree it gives `3 failed, 304 passed` (the three failures are
tests/doctests/test_misc_non_expr_compatible_coerce.txt, tests/test_one.py::TestFSTPut::test_get_format_spec and
tests/test_one.py::TestFSTPut::test_get_one_special; they fail before and after, that is expected). With your change
the suite must give exactly the same passes and the same three failures.

What makes a good change:
* It edits files under src/fst only (not tests), looks like something a maintainer could plausibly write during a
  refactoring or an optimisation (an off-by-one, a condition narrowed or widened, a stale cached value, a fix-up applied
  at the wrong level, a wrong field in a copy-pasted branch, validation moved after mutation, ...), and is small (a few lines).
* It breaks the property above for SOME inputs, but needs something specific to manifest — ordinary use would not
  expose it at once. {theme}
* It must not make the library crash on import or on the simplest uses.
Earlier changes written for this property already used the following places; choose a DIFFERENT function and mechanism:
""" + '\n'.join(f'  - {u}' for u in used) + f"""

Deliverables, in the directory {out} (create it):
1. `patch.diff` — output of `git -C {wt} diff` (unified diff, applies with `git apply` to the unchanged worktree).
2. `demo.py` — a small stand-alone program using only the public API of `fst` (plus the standard library) that exits 0 on
   the unchanged tree and exits non-zero (assertion failure) with your change applied. It must demonstrate a violation of
   the property as stated (compare with Python's own `ast.parse`, a list model, a fresh parse, ... as appropriate),
   not just "behaviour changed". It is run as `cd <worktree> && PYTHONPATH=<worktree>/src /venv/bin/python demo.py`.
3. `meta.json` — {{"property": "{pid}", "summary": "<file, function, what was changed and why it breaks the property>",
   "needs": "<what exactly is needed for it to manifest, and what is unaffected>", "tests": "<last line of the pytest run
   with the patch>", "demo_unpatched_exit": 0, "demo_patched_exit": <n>}}.
Before you finish: verify yourself that (i) the suite result with the patch is identical to the baseline, (ii) demo.py
exits 0 without the patch (save `git diff` to a file and use `git apply -R <file>` / `git apply <file>`; do NOT use `git stash`, the stash is shared between worktrees) and non-zero with it. Leave the worktree with the patch
applied. In your final answer report the three file paths and one paragraph on the change. If you notice that the
UNCHANGED library already violates the property for some input, mention that input in your final answer too.""")


if __name__ == '__main__':
    main()
