"""C17 - matching depends only on structure; quantifiers behave like regular expressions.

enum engine, three sub-spaces: (a) structural self-match / single-leaf mutation / layout independence / order
independence of match calls; (b) search(p) == [n for n in walk if n.match(p)]; (c) all quantified pattern sequences x
all element sequences against Python's `re` (the reference model) incl. captured spans."""
from __future__ import annotations

import ast
import copy
import itertools
import re

from .. import oracle as O
from ..fstnav import node_at
from ..programs import PROGRAMS as _SHARED

PROGRAMS = list(_SHARED) + [  # scopes whose comprehensions iterate over calls / contain lambdas and walruses (search(scope=True))
    "def f(n):\n    return [a for a in range(n)]\nz = [(lambda: (y := 1)) for a in xs]",
    "class K:\n    v = {k: w for k, w in d.items() if g(k)}\n    def m(self): return (u for u in self.v)",
    # the one node property a pattern reads from the source text: is a handler an `except*` handler (layouts that separate the star)
    "try:\n    a\nexcept \\\n  * E:\n    b\nexcept\\\n*F as g: c\ntry: pass\nexcept E: pass\nexcept (\n  F): pass\ntry: pass\nexcept  *  G: pass\nexcept*H: pass",
]

ID = 'C17'
LEVEL = 'model_checking'
TECHNIQUE = ('bounded exhaustive enumeration of (quantified pattern sequence, element sequence, container) on the real matcher with '
             "Python's re as reference model on every case; exhaustive self-match / leaf-mutation / layout / call-order "
             'enumeration over the program set')
LEVEL_TEXT = ('all pattern sequences up to length 3 over a 45-element quantifier alphabet (incl. static tags, single-node captures inside quantifiers, groups and back-references; length 4 over a 10-element core) x all element sequences up to length 5 '
              'over {a,b,c} in three container kinds are matched by the real code and compared (accept/reject and captured '
              'spans) with re.fullmatch; every node of 65 programs x derived patterns for the structural laws')
LEVEL_NOTE = ('trusted: Python re as the definition of quantifier semantics (sub-sequence quantifiers with inner quantifiers are '
              'atomic groups as documented); CPython ast for pure-AST targets')
RULE = ('enum: case = (container, pattern sequence, element string) or (program, node, derived pattern); non-trivial = distinct '
        'cases where the regex accepts (captures compared) or a structural law was exercised on a node with children; '
        'traces = matches compared with the reference')
ASSUMPTIONS = ['patterns without source-text sub-patterns for the layout law']
BOUNDS = {'quick': 'pattern sequences <= 3 over 45 alphabet entries and <= 4 over a 10-entry core (groups and back-references), strings <= 4 over {a,b,c} in '
                   'List.elts; length-2 sequences in body and Tuple; structural laws on 65 programs',
          'thorough': 'strings <= 6, sequences <= 3 in all containers, sequences of 4 over the 10-entry core alphabet'}


# ---------------------------------------------------------------------------------------------------------------------
# (c) quantifiers vs re

def alphabet(M):
    """[(name, pattern factory, regex fragment, tag or None)]; a fresh pattern object per use."""
    A = []

    def add(name, mk, rx, tag=None):
        A.append((name, mk, rx, tag))

    add("'a'", lambda: 'a', 'a')
    add("'b'", lambda: 'b', 'b')
    add('...', lambda: ..., '.')
    for x, rx in (('a', 'a'), ('b', 'b'), (..., '.')):
        xn = repr(x) if x is not ... else '...'
        add(f'MQSTAR({xn})', lambda x=x: M.MQSTAR(x), f'(?:{rx})*')
        add(f'MQPLUS({xn})', lambda x=x: M.MQPLUS(x), f'(?:{rx})+')
        add(f'MQOPT({xn})', lambda x=x: M.MQOPT(x), f'(?:{rx})?')
    add("MQ('a',1,2)", lambda: M.MQ('a', 1, 2), 'a{1,2}')
    add('MQN(...,2)', lambda: M.MQN(..., 2), '.{2}')
    add('MQSTAR.NG(...)', lambda: M.MQSTAR.NG(...), '.*?')
    add("MQPLUS.NG('a')", lambda: M.MQPLUS.NG('a'), 'a+?')
    add("MQOPT.NG('b')", lambda: M.MQOPT.NG('b'), 'b??')
    add("MQSTAR(['a','b'])", lambda: M.MQSTAR(['a', 'b']), '(?:ab)*')
    add("MQPLUS(['a','b'])", lambda: M.MQPLUS(['a', 'b']), '(?:ab)+')
    add("MQOPT(['a',...])", lambda: M.MQOPT(['a', ...]), '(?:a.)?')
    add("MQSTAR.NG(['a','b'])", lambda: M.MQSTAR.NG(['a', 'b']), '(?:ab)*?')
    add("MQSTAR([MQPLUS('a'),'b'])", lambda: M.MQSTAR([M.MQPLUS('a'), 'b']), '(?:(?>a+)b)*')
    # captured forms (tag t / u): compared by covered element indices
    add("MQSTAR(t='a')", lambda: M.MQSTAR(t='a'), '(?P<t>a*)', 't')
    add("MQPLUS(u=...)", lambda: M.MQPLUS(u=...), '(?P<u>.+)', 'u')
    add("MQSTAR.NG(t=...)", lambda: M.MQSTAR.NG(t=...), '(?P<t>.*?)', 't')
    add("MQSTAR(u=['a','b'])", lambda: M.MQSTAR(u=['a', 'b']), '(?P<u>(?:ab)*)', 'u')
    # a pattern with fields over mixed node kinds (element 'c' is rendered as the Constant 1, which has no .id)
    add("MTYPES((Name,Constant),id='a')", lambda: M.MTYPES((ast.Name, ast.Constant), id='a'), 'a')
    add("MQSTAR(t=MTYPES((Name,Constant),id='a'))", lambda: M.MQSTAR(t=M.MTYPES((ast.Name, ast.Constant), id='a')), '(?P<t>a*)', 't')
    add("MOR(MName('b'),MTYPES((Constant,Name),id='a'))", lambda: M.MOR(M.MName('b'), M.MTYPES((ast.Constant, ast.Name), id='a')), '[ab]')
    # static tags (a constant carried by the pattern) and single-node captures inside a quantifier (regex: the group of the last
    # iteration); tag kinds: ('static', name, value) / ('node', name)
    add("M('a',st=True)", lambda: M.M('a', st=True), 'a', ('static', 'st', True))
    add("MQOPT(M(v='b'))", lambda: M.MQOPT(M.M(v='b')), '(?:(?P<v>b))?', ('node', 'v'))
    add("MQSTAR(M(w=...))", lambda: M.MQSTAR(M.M(w=...)), '(?:(?P<w>.))*', ('node', 'w'))
    add("MQSTAR([M('a',sq=1),M(x=...)])", lambda: M.MQSTAR([M.M('a', sq=1), M.M(x=...)]), '(?:a(?P<x>.))*', ('node', 'x'))
    # static tags carried by the quantifier itself (anonymous quantifier): they take part in the give-back bookkeeping
    add("MQSTAR(M(y=...),qs=1)", lambda: M.MQSTAR(M.M(y=...), qs=1), '(?:(?P<y>.))*', ('node', 'y'))
    add("MQPLUS.NG(M(z='a'),qn=True)", lambda: M.MQPLUS.NG(M.M(z='a'), qn=True), '(?:(?P<z>a))+?', ('node', 'z'))
    add("MQ(M(m=...),0,2,qm=1)", lambda: M.MQ(M.M(m=...), 0, 2, qm=1), '(?:(?P<m>.)){0,2}', ('node', 'm'))
    # tagged alternatives whose sub-pattern supplies nothing but a static tag (the alternative's tag is added to what the child
    # returned): alone, under a quantifier (regex: group of the last iteration) and inside a sub-sequence
    add("MOR(o=M('a',so=1),p='b')", lambda: M.MOR(o=M.M('a', so=1), p='b'), '(?:(?P<o>a)|(?P<p>b))', ('node', 'o'))
    add("MQSTAR(MOR(r=M(...,sr=1)))", lambda: M.MQSTAR(M.MOR(r=M.M(..., sr=1))), '(?:(?P<r>.))*', ('node', 'r'))
    add("MQPLUS(['a',MOR(s=M(...,ss=1))])", lambda: M.MQPLUS(['a', M.MOR(s=M.M(..., ss=1))]), '(?:a(?P<s>.))+', ('node', 's'))
    # back-references: a one-element group and references to it (and to the single-node captures above), alone and quantified.
    # A reference before / without its group is not a regular expression (re.error): such sequences are skipped
    add("M(g=...)", lambda: M.M(g=...), '(?P<g>.)', ('node', 'g'))
    add("MTAG('g')", lambda: M.MTAG('g'), '(?P=g)')
    add("MQSTAR(MTAG('g'))", lambda: M.MQSTAR(M.MTAG('g')), '(?:(?P=g))*')
    add("MQPLUS.NG(MTAG('g'))", lambda: M.MQPLUS.NG(M.MTAG('g')), '(?:(?P=g))+?')
    add("MTAG('w')", lambda: M.MTAG('w'), '(?P=w)')
    add("MTAG('v')", lambda: M.MTAG('v'), '(?P=v)')
    return A


CORE4 = ("'a'", '...', "MQSTAR('a')", 'MQSTAR(...)', 'MQPLUS(...)', 'MQSTAR.NG(...)', "MQOPT('b')", 'M(g=...)', "MTAG('g')",
         "MQSTAR(MTAG('g'))")  # sequences of four: back-references behind two or more quantifiers


def _el(s):
    return ['1' if ch == 'c' else ch for ch in s]  # element 'c' is a Constant: mixed node kinds in one list


CONTAINERS = {
    'List.elts': (lambda s: '[' + ', '.join(_el(s)) + ']', 'MList', 'expr'),
    'Tuple.elts': (lambda s: '(' + ', '.join(_el(s)) + ',)' if s else '()', 'MTuple', 'expr'),
    'body': (lambda s: '\n'.join(_el(s)), 'MModule', 'exec'),
}


def strings(maxlen):
    for n in range(maxlen + 1):
        for t in itertools.product('abc', repeat=n):
            yield ''.join(t)


def covered(m, tag):
    """Element indices covered by the FSTMatch list under `tag`."""
    out = []
    for mm in m[tag]:
        x = mm.matched
        for f in (x if isinstance(x, list) else [x]):
            out.append(f.pfield.idx)
    return out


def run_quant(fst, M, cont, seqlen, maxstr, first, res, pure_ast=False, core=False):
    A = alphabet(M)
    pool = [i for i, a in enumerate(A) if a[0] in CORE4] if core else list(range(len(A)))
    mk_src, pcls, mode = CONTAINERS[cont]
    targets = []
    for s in strings(maxstr):
        src = mk_src(s)
        if cont == 'body' and not s:
            f = fst.FST('', 'exec')
        else:
            f = fst.FST(src, mode)
        targets.append((s, f, ast.parse(src).body[0].value if mode == 'expr' else ast.parse(src)))
    rest = list(itertools.product(pool, repeat=seqlen - 1)) if seqlen > 1 else [()]
    for tail in rest:
        idxs = (first,) + tail
        if cont == 'body' and any('MTYPES' in A[i][0] or 'MName' in A[i][0] for i in idxs):
            continue  # body elements are Expr statements, node-type patterns over Name/Constant do not apply
        if len({A[i][3] for i in idxs if A[i][3]}) != len([1 for i in idxs if A[i][3]]):
            continue  # the same tag twice: merged-tag semantics, not a regex group
        names = [A[i][0] for i in idxs]
        try:
            rx = re.compile(''.join(A[i][2] for i in idxs))
        except re.error:
            res.outcomes['not-a-regex:reference-before-group'] += 1
            continue
        tags = [A[i][3] for i in idxs if isinstance(A[i][3], str)]
        xtags = [A[i][3] for i in idxs if isinstance(A[i][3], tuple)]
        try:
            pat = getattr(M, pcls)([A[i][1]() for i in idxs])
        except Exception as e:  # noqa: BLE001
            res.fail(f'C17/q/{cont}/[{", ".join(names)}]', 'pattern-construction-raised', repr(e), {}, None)
            continue
        for s, f, pure in targets:
            cid = f'C17/q/{cont}/[{", ".join(names)}]~{s!r}' + ('/ast' if pure_ast else '')
            res.evals += 1
            res.transitions += 1
            want = rx.fullmatch(s)
            try:
                got = pat.match(pure if pure_ast else f)
            except Exception as e:  # noqa: BLE001
                res.fail(cid, 'match-raised:' + e.__class__.__name__, repr(e), {'seq': names}, {'cont': cont, 'idxs': list(idxs), 's': s})
                continue
            res.traces += 1
            rep = {'cont': cont, 'idxs': list(idxs), 's': s, 'pure_ast': pure_ast}
            has_sub = any('[' in n for n in names)
            if bool(got) != bool(want):
                res.fail(cid, 'accepts-but-regex-rejects' if got else 'rejects-but-regex-accepts',
                         f'pattern=[{", ".join(names)}] regex={rx.pattern!r} elements={s!r}',
                         {'subseq_quantifier': has_sub, 'nseq': len(idxs)}, rep)
                continue
            if want:
                ok = True
                if not pure_ast:
                    for t in tags:
                        a, b = want.span(t)
                        try:
                            cov = covered(got, t)
                        except Exception as e:  # noqa: BLE001
                            res.fail(cid, 'capture-unreadable', repr(e), {}, rep)
                            ok = False
                            break
                        if cov != list(range(a, b)):
                            res.fail(cid, 'captured-span-differs-from-regex-group',
                                     f'pattern=[{", ".join(names)}] regex={rx.pattern!r} elements={s!r} tag={t} got={cov} '
                                     f'want={list(range(a, b))}', {'subseq_quantifier': has_sub, 'nseq': len(idxs)}, rep)
                            ok = False
                            break
                if ok and not pure_ast:
                    for xt in xtags:
                        try:
                            if xt[0] == 'static':
                                gv = got.tags.get(xt[1], '<absent>')
                                if gv is not xt[2]:
                                    res.fail(cid, 'static-tag-lost-or-changed', f'pattern=[{", ".join(names)}] elements={s!r} tag={xt[1]} got={gv!r}',
                                             {'nseq': len(idxs)}, rep)
                                    ok = False
                                    break
                            else:
                                gv = got.tags.get(xt[1])
                                wi = want.start(xt[1]) if want.group(xt[1]) is not None else None
                                gi = None if gv is None else gv.pfield.idx if getattr(gv, 'root', None) is f else ('foreign', repr(gv))
                                if gi != wi:
                                    res.fail(cid, 'captured-node-differs-from-regex-group',
                                             f'pattern=[{", ".join(names)}] regex={rx.pattern!r} elements={s!r} tag={xt[1]} got index={gi} '
                                             f'want={wi}', {'nseq': len(idxs)}, rep)
                                    ok = False
                                    break
                        except Exception as e:  # noqa: BLE001
                            res.fail(cid, 'capture-unreadable', repr(e), {}, rep)
                            ok = False
                            break
                    if ok:  # nothing in the result may point into another tree (the pattern object is reused for every target)
                        for tv in got.tags.values():
                            for x in (tv if isinstance(tv, list) else [tv]):
                                node = getattr(x, 'matched', x)
                                for nd in (node if isinstance(node, list) else [node]):
                                    if hasattr(nd, 'root') and hasattr(nd, 'pfield') and nd.root is not f:
                                        res.fail(cid, 'match-result-refers-to-another-tree', f'pattern=[{", ".join(names)}] elements={s!r} {nd!r}',
                                                 {'nseq': len(idxs)}, rep)
                                        ok = False
                                        break
                if ok:
                    res.nontriv(cont, idxs, s)
                    res.outcomes['accept'] += 1
            else:
                res.outcomes['reject'] += 1
    res.sample({'container': cont, 'first': A[first][0], 'seqlen': seqlen})


# ---------------------------------------------------------------------------------------------------------------------
# (a) structural laws and (b) search == filter(match)

def relayout(src):
    """A re-layout of an expression statement program that keeps structure: wrap every top-level value in ( \\n ... \\n )."""
    tree = ast.parse(src)
    lines = src.split('\n')
    out = src
    for st in reversed(tree.body):
        v = getattr(st, 'value', None)
        if isinstance(st, (ast.Expr, ast.Assign, ast.Return)) and v is not None and not isinstance(v, (ast.Yield, ast.YieldFrom)):
            ln, eln = v.lineno - 1, v.end_lineno - 1
            s = O.offset_of(lines, ln, O.byte2char(lines[ln], v.col_offset))
            e = O.offset_of(lines, eln, O.byte2char(lines[eln], v.end_col_offset))
            out = out[:s] + '( # lay\n ' + out[s:e].replace('\n', '\n ') + '\n)' + out[e:]
    t2 = O.try_parse(out)
    if t2 is None or O.dump(t2) != O.dump(tree):
        return None
    return out


def mutate_leaves(a):
    """Yield (description, mutated deep copy) for every single-leaf mutation of a pure AST."""
    nodes = list(ast.walk(a))
    for i, n in enumerate(nodes):
        for f, v in ast.iter_fields(n):
            if isinstance(v, str) and f in ('id', 'attr', 'arg', 'name', 'asname', 'module'):
                c = copy.deepcopy(a)
                setattr(list(ast.walk(c))[i], f, v + '_x')
                yield f'{n.__class__.__name__}.{f}', c
            elif f == 'value' and isinstance(n, ast.Constant) and isinstance(v, (int, str)) and not isinstance(v, bool):
                c = copy.deepcopy(a)
                setattr(list(ast.walk(c))[i], f, v + (1 if isinstance(v, int) else 'x'))
                yield 'Constant.value', c
            elif isinstance(v, ast.operator) and isinstance(n, ast.BinOp):
                c = copy.deepcopy(a)
                setattr(list(ast.walk(c))[i], f, ast.Sub() if not isinstance(v, ast.Sub) else ast.Add())
                yield 'BinOp.op', c
            elif isinstance(v, list) and v and isinstance(v[0], ast.AST) and f in ('elts', 'args', 'body', 'keys', 'values', 'targets'):
                if f in ('keys', 'values'):
                    continue
                if f == 'body' and len(v) == 1:
                    continue
                c = copy.deepcopy(a)
                getattr(list(ast.walk(c))[i], f).pop()
                yield f'{n.__class__.__name__}.{f}-1', c


def run_struct(fst, M, pi, res):
    src = PROGRAMS[pi]
    root = fst.FST(src, 'exec')
    pure = ast.parse(src)
    lay = relayout(src)
    root2 = fst.FST(lay, 'exec') if lay else None
    cidp = f'C17/s/p{pi}/'
    rep = {'prog': pi}
    for path, node in O.iter_nodes(pure):
        if not isinstance(node, (ast.stmt, ast.expr, ast.mod, ast.pattern, ast.arg, ast.keyword, ast.alias, ast.withitem,
                                 ast.excepthandler, ast.match_case, ast.comprehension, ast.arguments)):
            continue
        from ..fstnav import node_at
        f = node_at(root, path)
        ps = O.path_str(path)
        res.evals += 1
        res.state(pi, ps)
        if isinstance(node, ast.ExceptHandler):  # `_star` is answered from the source: it has to agree with the class of the statement
            star = isinstance(O.get_path(pure, path[:-1]), ast.TryStar)
            try:
                got = (bool(f.match(M.MExceptHandler(_star=True))), bool(f.match(M.MExceptHandler(_star=False))), bool(f.is_except_star()))
            except Exception as e:  # noqa: BLE001
                got = repr(e)
            if got != (star, not star, star):
                res.fail(cidp + ps + '/_star', 'except-star-pattern-disagrees-with-statement-class',
                         f'src={src!r} node={ps} (_star=True, _star=False, is_except_star())={got} TryStar={star}', {}, rep)
        pat_ast = copy.deepcopy(node)
        try:
            m1 = f.match(pat_ast)
            m2 = M.M_Pattern.match(pat_ast, node) if False else None
        except Exception as e:  # noqa: BLE001
            res.fail(cidp + ps + '/self', 'match-raised:' + e.__class__.__name__, repr(e), {}, rep)
            continue
        res.traces += 1
        res.transitions += 1
        if not m1:
            res.fail(cidp + ps + '/self', 'node-does-not-match-own-ast', f'src={src!r} node={ps}', {}, rep)
            continue
        # same verdict on a re-layout and on the pure AST (pattern applied to an AST target)
        if root2 is not None:
            f2 = node_at(root2, path)
            res.transitions += 1
            if not f2.match(pat_ast):
                res.fail(cidp + ps + '/layout', 'match-depends-on-layout', f'src={src!r}\nlayout={lay!r} node={ps}', {}, rep)
                continue
        # single-leaf mutations must not match; wildcarded / tagged patterns must match with the tag bound to the node
        nm = 0
        for desc, mut in mutate_leaves(node):
            nm += 1
            res.transitions += 1
            try:
                r = f.match(mut)
            except Exception as e:  # noqa: BLE001
                res.fail(cidp + ps + f'/mut:{desc}', 'match-raised:' + e.__class__.__name__, repr(e), {}, rep)
                break
            if r:
                res.fail(cidp + ps + f'/mut:{desc}', 'matches-pattern-differing-in-one-leaf', f'src={src!r} node={ps} mutation={desc}',
                         {}, rep)
                break
            if root2 is not None and node_at(root2, path).match(mut):
                res.fail(cidp + ps + f'/mut:{desc}/layout', 'match-depends-on-layout', f'src={src!r} node={ps} mutation={desc}', {}, rep)
                break
        # order independence: matching something else in between does not change the result (shared state)
        try:
            r1 = bool(f.match(M.M(t=pat_ast)))
            root.match(M.MModule(body=[M.MQSTAR]))
            f.match(M.MNOT(pat_ast))
            r2 = f.match(M.M(t=pat_ast))
            if not (r1 and r2 and r2['t'] is f if hasattr(r2, '__getitem__') else False):
                res.fail(cidp + ps + '/tag', 'tagged-self-match-wrong', f'src={src!r} node={ps} r1={r1} r2={r2!r}', {}, rep)
                continue
            if f.match(M.MNOT(pat_ast)):
                res.fail(cidp + ps + '/not', 'MNOT-of-own-ast-matches', f'src={src!r} node={ps}', {}, rep)
                continue
        except Exception as e:  # noqa: BLE001
            res.fail(cidp + ps + '/tag', 'match-raised:' + e.__class__.__name__, repr(e), {}, rep)
            continue
        if nm:
            res.nontriv(pi, ps)
    # (b) search == filter(match) in walk order
    pats = {
        'Name': ast.Name, 'MName': M.MName(), 'expr': M.Mexpr(), 'stmt': M.Mstmt(), 'MOR': M.MOR(M.MName(), ast.Constant),
        'MAND': M.MAND(M.Mexpr(), M.MNOT(M.MName())), 'MNOT(Name)': M.MNOT(M.MName()), 'MTYPES': M.MTYPES((ast.Name, ast.Call)),
        'MRE': M.MRE('^[a-c]$'), 'MCall': M.MCall(), 'tag': M.M(t=M.MName()), 'str': 'a', 'MNOT(MName(a))': M.MNOT(M.MName('a')),
        'MBinOp': M.MBinOp(left=M.MName()), 'Constant': ast.Constant,
    }
    if pi < 24 or pi >= len(PROGRAMS) - 4:  # every pattern combinator over every kind of operand (the search pre-filter is derived from the pattern structure)
        bases = {'Name': lambda: ast.Name, 'MName(a)': lambda: M.MName('a'), 'MTYPES(N,C)': lambda: M.MTYPES((ast.Name, ast.Constant)),
                 'MTYPES(C,value=1)': lambda: M.MTYPES((ast.Constant,), value=1), 'MTYPES(N,C,id=a)': lambda: M.MTYPES((ast.Name, ast.Constant), id='a'),
                 'MConstant(1)': lambda: M.MConstant(1), 'MRE': lambda: M.MRE('^[a-c]$'), 'str': lambda: 'a', 'Mexpr': lambda: M.Mexpr(),
                 'MCall(f)': lambda: M.MCall(func=M.MName('f')), 'astName(a)': lambda: ast.Name(id='a'), '...': lambda: ...}
        wraps = {'MNOT': lambda x: M.MNOT(x), 'M': lambda x: M.M(t=x), 'MOR': lambda x: M.MOR(x, M.MConstant('zz')),
                 'MAND': lambda x: M.MAND(M.Mexpr(), x), 'MORt': lambda x: M.MOR(o=x)}
        for bn, b in bases.items():
            for w1n, w1 in wraps.items():
                pats[f'{w1n}({bn})'] = w1(b())
                for w2n, w2 in wraps.items():
                    if w2n in ('MNOT', 'MOR', 'MAND') or w1n == 'MNOT':
                        pats[f'{w2n}({w1n}({bn}))'] = w2(w1(b()))
    scope_nodes = [((), None)] + [(sp, sn) for sp, sn in O.iter_nodes(ast.parse(src)) if isinstance(
        sn, (ast.FunctionDef, ast.AsyncFunctionDef, ast.ClassDef, ast.Lambda, ast.ListComp, ast.SetComp, ast.DictComp, ast.GeneratorExp))]
    for pn, p in pats.items():
        cid = cidp + f'search/{pn}'
        res.evals += 1
        res.transitions += 1
        try:
            got = [m.matched for m in root.search(p)]
            want = [n for n in root.walk(True) if n.match(p)]
            want_f = [n for n in root.walk() if n.match(p)]
        except Exception as e:  # noqa: BLE001
            res.fail(cid, 'search-raised:' + e.__class__.__name__, repr(e), {}, rep)
            continue
        res.traces += 1
        if [id(x) for x in got] not in ([id(x) for x in want], [id(x) for x in want_f]):
            res.fail(cid, 'search-differs-from-filtered-walk',
                     f'src={src!r} pattern={pn}\nsearch={got!r}\nfilter(walk(True))={want!r}\nfilter(walk())={want_f!r}', {'pat': pn}, rep)
        elif got:
            res.nontriv(pi, 'search', pn)
        # the same law inside one scope: search(scope=True) from every scope node == filter(match) over walk(True, scope=True)
        for sp, sn in scope_nodes:
            scid = cidp + f'search-scope/{O.path_str(sp) or "<root>"}/{pn}'
            res.evals += 1
            res.transitions += 1
            try:
                f = node_at(root, sp)
                got = [m.matched for m in f.search(p, scope=True)]
                want = [n for n in f.walk(True, scope=True) if n.match(p)]
                want_f = [n for n in f.walk(scope=True) if n.match(p)]
            except Exception as e:  # noqa: BLE001
                res.fail(scid, 'search-raised:' + e.__class__.__name__, repr(e), {}, rep)
                continue
            res.traces += 1
            if [id(x) for x in got] not in ([id(x) for x in want], [id(x) for x in want_f]):
                res.fail(scid, 'scope-search-differs-from-filtered-scope-walk',
                         f'src={src!r} pattern={pn}\nsearch={got!r}\nfilter(walk(True, scope=True))={want!r}', {'pat': pn}, rep)
            elif got:
                res.nontriv(pi, 'search-scope', sp, pn)


def shards(tier):
    import fst.match as M
    n = len(alphabet(M))
    out = [{'kind': 'q', 'cont': 'List.elts', 'seqlen': L, 'first': i, 'maxstr': 4 if tier == 'quick' else 6}
           for L in (1, 2, 3) for i in range(n)]
    for cont in ('Tuple.elts', 'body'):
        out += [{'kind': 'q', 'cont': cont, 'seqlen': L, 'first': i, 'maxstr': 4 if tier == 'quick' else 5}
                for L in ((1, 2) if tier == 'quick' else (1, 2, 3)) for i in range(n)]
    out += [{'kind': 'q', 'cont': 'List.elts', 'seqlen': 2, 'first': i, 'maxstr': 4, 'pure_ast': True} for i in range(n)]
    A = alphabet(M)
    out += [{'kind': 'q', 'cont': 'List.elts', 'seqlen': 4, 'first': i, 'maxstr': 4 if tier == 'quick' else 6, 'core': True}
            for i in range(n) if A[i][0] in CORE4]
    out += [{'kind': 's', 'prog': i} for i in range(len(PROGRAMS))]
    return out


def run_shard(desc, tier, res):
    import fst
    import fst.match as M
    if desc['kind'] == 'q':
        run_quant(fst, M, desc['cont'], desc['seqlen'], desc['maxstr'], desc['first'], res, desc.get('pure_ast', False), desc.get('core', False))
    else:
        run_struct(fst, M, desc['prog'], res)


def replay(rep, res):
    import fst
    import fst.match as M
    if 'cont' in rep:
        A = alphabet(M)
        mk_src, pcls, mode = CONTAINERS[rep['cont']]
        s = rep['s']
        f = fst.FST(mk_src(s), mode) if (s or rep['cont'] != 'body') else fst.FST('', 'exec')
        pat = getattr(M, pcls)([A[i][1]() for i in rep['idxs']])
        rx = re.compile(''.join(A[i][2] for i in rep['idxs']))
        got, want = pat.match(f), rx.fullmatch(s)
        print('pattern', [A[i][0] for i in rep['idxs']], 'regex', rx.pattern, 'elements', s, '-> pfst', got, 're', want)
        if bool(got) != bool(want):
            res.fail('replay', 'accept/reject differs', '')
    else:
        run_struct(fst, M, rep['prog'], res)
