"""C14 - traversal visits every node once, in source order, consistently across APIs.

enum engine over programs x start nodes x all walk parameter combinations. The full forward walk is validated
structurally against CPython (node set == ast.walk, valid pre-order, located siblings in token/position order); every
other mode/API is compared with the reference order derived from it (pre/post/bracketed, reversed siblings, filters)."""
from __future__ import annotations

import ast

from .. import oracle as O
from ..core import CaseTimeout, deadline
from ..programs import PROGRAMS as BASE
from .c11 import EXTRA

ID = 'C14'
LEVEL = 'model_checking'
TECHNIQUE = ('bounded exhaustive enumeration of (program, start node, walk parameter combination, navigation API) on the real '
             'traversal code, compared with a reference pre/post-order built from CPython node sets and positions')
LEVEL_TEXT = ('every start node of 761 programs (every node type incl. interleaved arguments, dict unpacking, decorators, type '
              'parameters, patterns, f-strings) x every combination of all/on/back/recurse/self_ and every step/next/prev/'
              'child/path API is executed and compared with the reference; nothing sampled')
LEVEL_NOTE = 'trusted: CPython ast.walk / positions / tokenize; operator and computed-node order keys derived from operand positions'
RULE = ('enum: case = (program, start node, parameter combination); non-trivial = distinct (program, start, combo) whose walk '
        'has >1 node; states = distinct (program, node) pairs visited; traces = walks compared with the reference order')
ASSUMPTIONS = ['read-only; the AST objects of the tree are plain ast nodes (C05 judges that they equal ast.parse)']
BOUNDS = {'quick': '589 programs (95 hand-written, every arrangement of <= 4 call / class arguments, every parameter-list shape as def and lambda); start nodes: root + every node; all 120 parameter combinations at every start node',
          'thorough': 'all 120 combinations at every node + fixed corpus sweep of /repo/src/fst/*.py at the root'}

TRICKY = [
    "f(a, k=b, *c, l=d, **e)",
    "class C(a, k=b, *c, **d): pass",
    "d = {a: b, **c, d: e}",
    "@d1\n@d2(x)\ndef f[T: int, *U, **V](a, /, b=1, *c, d=2, e, **g) -> r: pass",
    "@d\nclass K[T](B, m=M): x: int = 1",
    "match s:\n    case {1: a, 2: [b, *c], **r}: pass\n    case C(a, b, k=c, l=d): pass\n    case (x as y) | z if g: pass",
    "x = f'{a!r:>{w}} {b=} {f\"{c}\"}'",
    "r = a < b <= c != d",
    "l = lambda a, b=1, *c, d=2, e, **g: a",
    "v = [x for x in y if z for w in v if u]",
    "with a as b, (c, d) as e, f: pass",
    "try:\n    a\nexcept A as e: b\nexcept B: c\nelse: d\nfinally: e",
    "async def f():\n    async for a in b: await c\n    async with d as e: pass",
    "type X[T: (int, str)] = dict[T, T]",
    "x = a if b else c; y = a and b or not c; z = -a ** ~b",
    "import a.b as c, d\nfrom .e import (f as g, h)",
    "def f(*, a, b=1): pass\ndef g(a=1, /): pass\ndef h(*a, **k): pass",
    "x[a:b, c:d:e, ...] = y = *z, w",
    "@d\nclass C[T](metaclass=M, *mixins): pass",
    "@d\nclass C(k=a, *b, l=c, **e): pass\nclass D[T](*b): pass\nclass E(k=v): pass",
    "f(k=a, *b)\ng(*a, k=b, *c, **d, l=e)\nh(**a)\ni(*a)",
    "@d\ndef f[T](): pass\n@e\nasync def g[*U](*, k): pass",
    "def f(a=1, *, b): pass\nl = lambda *, a=1, b: 0\nm = lambda a, /, b=2, *, c=3: 0",
    "x = {**a}\ny = {**a, b: c}\nz = {a: b, **c, **d}",
    "match s:\n    case C(k=a): pass\n    case C(a, k=b): pass\n    case {**r}: pass\n    case {1: a}: pass",
]


def _arg_arrangements(maxlen):
    """Every syntactically valid arrangement of positional / starred / keyword / double-starred arguments up to a length, as a
    call and as a class header (args and keywords live in two lists that traversal has to merge by position)."""
    import itertools
    out = []
    for n in range(2, maxlen + 1):
        for ks in itertools.product('psKd', repeat=n):
            if 'K' not in ks and 'd' not in ks:
                continue  # one list only: covered by the hand-written programs
            txt = ', '.join({'p': f'a{i}', 's': f'*b{i}', 'K': f'k{i}=c{i}', 'd': f'**d{i}'}[k] for i, k in enumerate(ks))
            for src in (f'f({txt})', f'class C({txt}): pass'):
                try:
                    ast.parse(src)
                except SyntaxError:
                    continue
                out.append(src)
    return out




def _param_shapes():
    """Every shape of a parameter list (each of positional-only / plain / vararg or bare star / keyword-only / kwarg absent or
    present, with and without default), as a def and as a lambda: which parts exist decides whether the arguments node counts."""
    import itertools
    out = []
    for po, pl, va, ko, kw in itertools.product(('', 'p, /', 'p=1, /'), ('', 'a', 'a=2'), ('', '*', '*v'), ('', 'k', 'k=3'), ('', '**w')):
        src = ', '.join(x for x in (po, pl, va, ko, kw) if x)
        for prog in (f'def f({src}): pass', f'l = lambda {src}: 0' if src else 'l = lambda: 0'):
            try:
                ast.parse(prog)
            except SyntaxError:
                continue
            out.append(prog)
    return out


ARGS4 = _arg_arrangements(4)


def _arg_layouts(maxlen):
    """The same arrangements up to `maxlen` laid out over several lines, every element on its own line at a smaller (and, second
    layout, larger) column than the one before: source order is (line, column) order, neither alone."""
    out = []
    for src in _arg_arrangements(maxlen):
        head, _, rest = src.partition('(')
        body, _, tail = rest.rpartition(')')
        parts = body.split(', ')
        for cols in ([2 * (len(parts) - i) for i in range(len(parts))], [1 + 3 * i for i in range(len(parts))]):
            txt = head + '(' + ''.join((',\n' + ' ' * c if i else ' ' * (c + 8)) + p for i, (c, p) in enumerate(zip(cols, parts))) + ')' + tail
            ast.parse(txt)
            out.append(txt)
    return out


ARGS_ML = _arg_layouts(3)
PARAMS = _param_shapes()
BLOCKS = [  # every statement-list field with two or three statements (sibling stepping inside each kind of block)
    "match s:\n case 1:\n  a\n  b\n  c\n case [x] if g:\n  d\n  e",
    "try:\n a\n b\nexcept E:\n c\n d\nexcept F as f:\n e\nelse:\n g\n h\nfinally:\n i\n j",
    "try:\n a\nexcept* E:\n c\n d",
    "for i in j:\n a\n b\nelse:\n c\n d\nwhile x:\n e\n f\nelse:\n g\n h",
    "with a:\n b\n c\nclass C:\n d\n e\ndef f():\n g\n h",
    "async def f():\n async for i in j:\n  a\n  b\n else:\n  c\n  d\n async with k:\n  e\n  g",
    "if a:\n b\n c\nelif d:\n e\n f\nelse:\n g\n h",
    "@dataclass\nclass Pair[K, V: int, *W](B, m=M): pass\n@d1\n@d2(x)\ndef g[T, *U, **V](a): pass\ntype A[T, U] = dict[T, U]",
]
PROGS = BASE + EXTRA + TRICKY
N_HAND = len(PROGS)
FSTR14 = [  # every shape of replacement field: empty / literal / nested format spec, conversion, self-documenting, nested and joined strings
    'a = f"{x:}"\nb = f"{x!r:}"\nc = f"{x:>10}"\nd = f"{x:{w}}"\ne = f"{x:{w}.{p}f}"',
    'a = f"{f\'{y:}\'}"\nb = f"{x=}"\nc = f"{x=!r:}"\nd = f""\ne = f"{x}{y:}{z!s}"\ng = f"a" "b" f"{c:}" f"{d}"',
    'a = f"""{\n x\n :\n}"""\nb = f"{x:{y:}}"\nc = f"{ {1: 2}[1] :}"\nd = f"{(lambda: 1)():}"',
]
LONG14 = [  # list fields with more than ten elements (indices of two digits in string paths)
    "x = [a0, a1, a2, a3, a4, a5, a6, a7, a8, a9, a10, a11, a12]\n" + "\n".join(f"s{i} = {i}" for i in range(12)) + "\nf(b0, b1, b2, b3, b4, b5, b6, b7, b8, b9, b10, k=b11)",
]
PROGS = PROGS + ARGS4 + PARAMS + BLOCKS + FSTR14 + LONG14 + ARGS_ML
for _p in FSTR14:
    ast.parse(_p)
for _p in PROGS[:N_HAND]:
    ast.parse(_p)

OPCLS = (ast.operator, ast.unaryop, ast.cmpop)


def pos_key(node):
    """Source-order key for located nodes, None if the node has no independent position."""
    if hasattr(node, 'lineno'):
        return (node.lineno, node.col_offset, 0)
    if isinstance(node, ast.comprehension):
        k = pos_key(node.target)
        return (k[0], k[1], -1)
    if isinstance(node, ast.withitem):
        k = pos_key(node.context_expr)
        return (k[0], k[1], -1)
    if isinstance(node, ast.match_case):
        k = pos_key(node.pattern)
        return (k[0], k[1], -1)
    if isinstance(node, ast.arguments):
        ks = [pos_key(c) for c in ast.walk(node) if hasattr(c, 'lineno')]
        return min(ks)[:2] + (-1,) if ks else None
    return None


def op_key(parent, op):
    """Operators sit between their operands: key just after the end of the preceding operand."""
    if isinstance(parent, ast.BinOp):
        return (parent.left.end_lineno, parent.left.end_col_offset, 1)
    if isinstance(parent, ast.UnaryOp):
        return (parent.lineno, parent.col_offset, -1)
    if isinstance(parent, ast.AugAssign):
        return (parent.target.end_lineno, parent.target.end_col_offset, 1)
    if isinstance(parent, ast.Compare):
        i = [id(o) for o in parent.ops].index(id(op))
        prev = parent.left if i == 0 else parent.comparators[i - 1]
        return (prev.end_lineno, prev.end_col_offset, 1)
    return None  # BoolOp.op: not well located


def child_key(parent, ch):
    if isinstance(ch, OPCLS):
        return op_key(parent, ch)
    if isinstance(parent, (ast.JoinedStr, getattr(ast, 'TemplateStr', ast.JoinedStr))):
        # the hidden text constant of '{x = }' overlaps the field that follows it: order of the parts is the order of .values
        for i, v in enumerate(parent.values):
            if v is ch:
                return (i, 0, 0)
    return pos_key(ch)


def in_all_false(a):
    # mod roots have a (whole-source) location in pfst and are yielded as located nodes
    return hasattr(a, 'lineno') or isinstance(a, ast.mod) or isinstance(a, (ast.comprehension, ast.withitem, ast.match_case)) or (
        isinstance(a, ast.arguments) and any(True for _ in ast.iter_child_nodes(a)))


def in_loc(a):
    return in_all_false(a) or isinstance(a, ast.arguments) or isinstance(a, OPCLS)


ALLS = {
    'True': (True, lambda a: True),
    'False': (False, in_all_false),
    'loc': ('loc', in_loc),
    'Name': (ast.Name, lambda a: a.__class__ is ast.Name),
    'set': ({ast.Name, ast.Call, ast.arg, ast.Constant}, lambda a: a.__class__ in (ast.Name, ast.Call, ast.arg, ast.Constant)),
}


class Ref:
    """Reference orders derived from the validated full forward walk."""

    def __init__(self, order_children):
        self.ch = order_children  # id(ast) -> [child asts in walk order]

    def seq(self, a, on, back, recurse, self_, pred, top=True, depth=0):
        out = []
        kids = self.ch.get(id(a), [])
        if back:
            kids = kids[::-1]
        inc_self = (self_ or not top) and pred(a)
        descend = top or recurse
        if on in ('enter', 'both') and inc_self:
            out.append((a, False) if on == 'both' else a)
        if descend:
            for k in kids:
                out += self.seq(k, on, back, recurse, self_, pred, False, depth + 1)
        if on in ('leave', 'both') and inc_self:
            out.append((a, True) if on == 'both' else a)
        return out


def validate_full(root_f, res, cid, rep):
    """walk(all=True) from root_f: node set == ast.walk set, each once, valid preorder, located siblings ordered."""
    a0 = root_f.a
    want = {id(n) for n in ast.walk(a0)}
    seq = [f.a for f in root_f.walk(True)]
    ids = [id(a) for a in seq]
    if len(set(ids)) != len(ids):
        res.fail(cid, 'node-yielded-twice', f'{len(ids) - len(set(ids))} duplicates', {}, rep)
        return None
    if set(ids) != want:
        miss = [n.__class__.__name__ for n in ast.walk(a0) if id(n) not in set(ids)]
        extra = [a.__class__.__name__ for a in seq if id(a) not in want]
        res.fail(cid, 'walk-node-set-differs-from-ast.walk', f'missing={miss[:10]} extra={extra[:10]}', {}, rep)
        return None
    parent_of = {}
    for p in ast.walk(a0):
        for c in ast.iter_child_nodes(p):
            parent_of[id(c)] = p
    children = {}
    stack = []
    for a in seq:
        if a is a0:
            stack = [a]
            continue
        p = parent_of[id(a)]
        while stack and stack[-1] is not p:
            stack.pop()
        if not stack:
            res.fail(cid, 'not-a-preorder', f'{a.__class__.__name__} yielded outside its parent subtree '
                     f'{p.__class__.__name__}', {}, rep)
            return None
        children.setdefault(id(p), []).append(a)
        stack.append(a)
    for p in ast.walk(a0):
        kids = children.get(id(p), [])
        last = None
        for k in kids:
            key = child_key(p, k)
            if key is None:
                continue
            if last is not None and key < last[0]:
                res.fail(cid, 'siblings-out-of-source-order',
                         f'in {p.__class__.__name__}: {last[1].__class__.__name__}@{last[0]} before '
                         f'{k.__class__.__name__}@{key}', {}, rep)
                return None
            last = (key, k)
    return Ref(children), seq


def names(seq):
    out = []
    for x in seq:
        a, lv = (x if isinstance(x, tuple) else (x, None))
        a = getattr(a, 'a', a)
        s = a.__class__.__name__ + (f'@{a.lineno},{a.col_offset}' if hasattr(a, 'lineno') else '')
        out.append(s if lv is None else f'{s}/{"L" if lv else "E"}')
    return out


def same(got, want):
    if len(got) != len(want):
        return False
    for g, w in zip(got, want):
        if isinstance(w, tuple):
            if not isinstance(g, tuple) or g[0].a is not w[0] or bool(g[1]) != w[1]:
                return False
        elif g.a is not w:
            return False
    return True


def combos(full):
    for an in ALLS:
        for on in ('enter', 'leave', 'both'):
            for back in (False, True):
                for recurse in (True, False):
                    for self_ in (True, False):
                        if not full and not ((an in ('True', 'False') and recurse and self_) or
                                             (an == 'loc' and on == 'enter' and recurse and self_) or
                                             (an == 'Name' and on == 'enter' and not back)):
                            continue
                        yield an, on, back, recurse, self_


def check_start(fst, root, start_f, pi, spath, full, res):
    cid0 = f'C14/p{pi}/{spath}'
    rep = {'prog': pi, 'start': spath}
    try:
        v = validate_full(start_f, res, cid0 + '/walk(True)', rep)
    except Exception as e:  # noqa: BLE001
        res.fail(cid0 + '/walk(True)', 'walk-raised:' + e.__class__.__name__, repr(e), {}, rep)
        return
    res.evals += 1
    res.traces += 1
    if v is None:
        return
    ref, fullseq = v
    for a in fullseq:
        res.state(pi, spath, id(a) % 100000, a.__class__.__name__)
    for an, on, back, recurse, self_ in combos(full):
        allv, pred = ALLS[an]
        cid = f'{cid0}/all={an},on={on},back={back},recurse={recurse},self_={self_}'
        res.evals += 1
        res.transitions += 1
        try:
            got = list(start_f.walk(allv, on, self_=self_, recurse=recurse, back=back))
        except Exception as e:  # noqa: BLE001
            res.fail(cid, 'walk-raised:' + e.__class__.__name__, repr(e), {}, rep)
            continue
        want = ref.seq(start_f.a, on, back, recurse, self_, pred)
        res.traces += 1
        if not same(got, want):
            res.fail(cid, 'walk-order-differs-from-reference',
                     f'src={PROGS[pi]!r}\ngot ={names(got)[:40]}\nwant={names(want)[:40]}', {'all': an, 'on': on}, rep)
        elif len(want) > 1:
            res.nontriv(cid)
    # step_fwd / step_back reproduce walk order (from the start node, restricted to its subtree with top=)
    for an in ('True', 'False', 'loc', 'Name'):
        allv, pred = ALLS[an]
        for back in (False, True):
            cid = f'{cid0}/step_{"back" if back else "fwd"}(all={an})'
            want = ref.seq(start_f.a, 'enter', back, True, False, pred)
            got = []
            res.evals += 1
            try:
                n = start_f
                for _ in range(len(fullseq) + 5):
                    n = (n.step_back if back else n.step_fwd)(allv, top=start_f)
                    if n is None:
                        break
                    got.append(n)
            except Exception as e:  # noqa: BLE001
                res.fail(cid, 'step-raised:' + e.__class__.__name__, repr(e), {}, rep)
                continue
            res.traces += 1
            if not same(got, want):
                res.fail(cid, 'step-order-differs-from-walk', f'src={PROGS[pi]!r}\ngot ={names(got)[:40]}\nwant={names(want)[:40]}',
                         {'all': an}, rep)
    # children APIs
    for an in ('True', 'False', 'loc', 'Name'):
        allv, pred = ALLS[an]
        kids = [k for k in ref.ch.get(id(start_f.a), []) if pred(k)]
        cid = f'{cid0}/children(all={an})'
        res.evals += 1
        try:
            got = []
            n = None
            for _ in range(len(kids) + 3):
                n = start_f.next_child(n, allv)
                if n is None:
                    break
                got.append(n)
            gotb = []
            n = None
            for _ in range(len(kids) + 3):
                n = start_f.prev_child(n, allv)
                if n is None:
                    break
                gotb.append(n)
            fc, lc = start_f.first_child(allv), start_f.last_child(allv)
            sib_next = [k.f.next(allv) for k in kids]
            sib_prev = [k.f.prev(allv) for k in kids]
        except Exception as e:  # noqa: BLE001
            res.fail(cid, 'child-api-raised:' + e.__class__.__name__, repr(e), {}, rep)
            continue
        res.traces += 1
        ok = (same(got, kids) and same(gotb, kids[::-1])
              and (fc.a if fc else None) is (kids[0] if kids else None)
              and (lc.a if lc else None) is (kids[-1] if kids else None)
              and all((s.a if s else None) is (kids[i + 1] if i + 1 < len(kids) else None) for i, s in enumerate(sib_next))
              and all((s.a if s else None) is (kids[i - 1] if i > 0 else None) for i, s in enumerate(sib_prev)))
        if not ok:
            res.fail(cid, 'child-navigation-differs-from-walk',
                     f'src={PROGS[pi]!r}\nnext_child={names(got)}\nprev_child={names(gotb)}\nwant={names(kids)}\n'
                     f'next()={names([s for s in sib_next if s])} prev()={names([s for s in sib_prev if s])}', {'all': an}, rep)
    # paths
    res.evals += 1
    try:
        for a in fullseq:
            f = a.f
            if f is start_f:
                continue
            p1 = start_f.child_path(f)
            p2 = start_f.child_path(f, True)
            if start_f.child_from_path(p1) is not f or start_f.child_from_path(p2) is not f:
                res.fail(cid0 + '/paths', 'child_path-not-inverse', f'{names([a])} path={p2!r}', {}, rep)
                break
        # the string form is the grammar path written out ('body[0].value.elts[10]'): paths built from CPython's own field / index
        # information must lead to the same nodes, and nothing else may be called by that name
        seen_paths = {}
        for gp, ga in O.iter_nodes(start_f.a):
            if not gp:
                continue
            sp = O.path_str(gp)
            got = start_f.child_from_path(sp)
            if got is not ga.f or start_f.child_path(ga.f, True) != sp or sp in seen_paths:
                res.fail(cid0 + '/paths', 'string-path-differs-from-grammar-path', f'path={sp!r} -> {got!r}, want {ga.f!r}; child_path={start_f.child_path(ga.f, True)!r}', {}, rep)
                break
            seen_paths[sp] = ga
    except Exception as e:  # noqa: BLE001
        res.fail(cid0 + '/paths', 'path-api-raised:' + e.__class__.__name__, repr(e), {}, rep)
    res.traces += 1


def shards(tier):
    out = [{'prog': i} for i in range(len(PROGS))]
    if tier == 'thorough':
        import glob
        import os
        for f in sorted(glob.glob(os.path.join(os.environ.get('PFSTMC_REPO', '/repo'), 'src/fst/*.py'))):
            out.append({'file': f})
    return out


def run_shard(desc, tier, res):
    import fst
    if 'file' in desc:
        with open(desc['file'], encoding='utf8') as fh:
            src = fh.read()
        root = fst.FST(src, 'exec')
        PROGS.append(src)
        check_start(fst, root, root, len(PROGS) - 1, '<root>:' + desc['file'].rsplit('/', 1)[-1], False, res)
        PROGS.pop()
        return
    pi = desc['prog']
    src = PROGS[pi]
    root = fst.FST(src, 'exec')
    with deadline(120):
        for path, node in O.iter_nodes(ast.parse(src)):
            from ..fstnav import node_at
            f = node_at(root, path)
            check_start(fst, root, f, pi, O.path_str(path), True, res)
    res.sample({'program': src, 'walk': names(list(root.walk(True)))[:12]})


def replay(rep, res):
    import fst
    from ..fstnav import node_at
    pi = rep['prog']
    src = PROGS[pi]
    root = fst.FST(src, 'exec')
    for path, node in O.iter_nodes(ast.parse(src)):
        if O.path_str(path) == rep['start']:
            check_start(fst, root, node_at(root, path), pi, rep['start'], True, res)
