"""C03 - edits follow Python container semantics and change nothing else in the tree.

enum engine with a `list` reference model: every container kind (list-valued fields + virtual fields) x length 0..3 x
every (start, stop) / index incl. out-of-range, negative and 'end' x new-element lists of length 0..2 x layouts x
equivalent entry points. Expected program = witness template rendered from the model's element list, parsed by CPython."""
from __future__ import annotations

import ast
import re

from .. import oracle as O
from ..core import CaseTimeout, deadline
from ..fstnav import live_vs_parse, node_at

ID = 'C03'
LEVEL = 'model_checking'
TECHNIQUE = ('bounded exhaustive enumeration of (container kind, length, slice bounds / index, new elements, layout, entry point) on the '
             'real put/put_slice/view/attribute code with a Python list as reference model on every case; the whole resulting '
             'program is compared structurally with the model rendered through a witness template and parsed by CPython')
LEVEL_TEXT = ('59 container kinds (every list-like field category, the virtual fields _all/_args/_bases/_body, single fields interleaved with the other field of a call, statement lists holding if statements, containers directly behind a keyword) x lengths 0..3 x all '
              'bounds in -(n+2)..n+2 and "end" x 0..2 new elements x 3 layouts x 9 entry points are executed on the real code and '
              'compared with list semantics; refusals of requests whose model result is valid Python are reported')
LEVEL_NOTE = ('trusted: Python list / slice.indices semantics, CPython ast; documented refusals: NotImplementedError, minimum lengths '
              'under norm=True, ordering rules of arguments/arglikes (the alphabet uses order-neutral elements)')
RULE = ('enum: case = (kind, n, start, stop, m, layout, entry); non-trivial = distinct cases whose model result differs from the old '
        'list; states = distinct start/result sources; traces = cases compared with the list model')
ASSUMPTIONS = ['norm=True, pars auto', 'elements are simple names / minimal statements so that only container semantics is exercised']
BOUNDS = {'quick': '51 kinds (6 with multi-byte elements, 4 mixing positional/keyword/starred arguments, 4 single fields interleaved with the other field of a call / class header, 4 with op_side / set_norm options); histories of 2 operations through one view object (n=3, every window, 9 operation kinds), n in 0..3, all (start, stop) in {-(n+2)..n+2, end}^2, m in 0..2, bare layout, entries put_slice/view-slice/put(one=False); '
                   'single-index put/delete/insert/append/extend/prepend/prextend/attribute assignment; multi-line and stair (continuation line at a smaller column) layouts for bounds in 0..n',
          'thorough': 'n up to 4, all entries x both layouts for every bound pair, fst and ast code forms; view histories of 3 operations on 13 kinds (n=3), of 2 operations with n=4'}


class Kind:
    def __init__(self, name, tmpl, path, field, el, new, code, minlen=0, vfield=None, mode=None, unsupported=(), one=None, opts=None,
                 startmin=0):
        self.name, self.tmpl, self.path, self.field = name, tmpl, path, field
        self.el, self.new, self.code, self.minlen = el, new, code, minlen
        self.vfield = vfield
        self.mode = mode
        self.unsupported = unsupported
        self.one = one or (lambda x: code([x]))   # code for a single-element put
        self.opts = opts or {}
        self.startmin = max(startmin, minlen)  # shortest start container (the normalised empty form is a different node kind)


def _csv(els):
    return ', '.join(els)


def _tuple(els):
    return '(' + ', '.join(els) + (',' if len(els) == 1 else '') + ')'


E3 = ['e0', 'e1', 'e2', 'e3']
X2 = ['x0', 'x1']
P = (('body', 0),)
PV = (('body', 0), ('value', None))

KINDS = [
    Kind('List.elts', lambda e: f'v = [{_csv(e)}]', PV, 'elts', E3, X2, _csv),
    Kind('Tuple.elts', lambda e: f'v = {_tuple(e)}', PV, 'elts', E3, X2, _csv),
    Kind('Set.elts', lambda e: 'v = {' + _csv(e) + '}', PV, 'elts', E3, X2, _csv, 1),
    Kind('Call.args', lambda e: f'f({_csv(e)})', PV, 'args', E3, X2, _csv),
    Kind('Call._args', lambda e: f'f({_csv(e)})', PV, '_args', E3, X2, _csv),
    Kind('Call.keywords', lambda e: f'f({_csv(e)})', PV, 'keywords', ['a0=e0', 'a1=e1', 'a2=e2', 'a3=e3'], ['b0=x0', 'b1=x1'], _csv),
    Kind('ClassDef.bases', lambda e: f'class C({_csv(e)}): pass' if e else 'class C: pass', P, 'bases', E3, X2, _csv),
    Kind('ClassDef._bases', lambda e: f'class C({_csv(e)}): pass' if e else 'class C: pass', P, '_bases', E3, X2, _csv),
    Kind('Delete.targets', lambda e: f'del {_csv(e)}', P, 'targets', E3, X2, _csv, 1),
    Kind('Assign.targets', lambda e: ''.join(x + ' = ' for x in e) + 'v', P, 'targets', E3, X2, lambda e: ''.join(x + ' = ' for x in e), 1, one=lambda x: x),
    Kind('Module.body', lambda e: '\n'.join(e), (), 'body', E3, X2, lambda e: '\n'.join(e)),
    Kind('FunctionDef.body', lambda e: 'def f():\n' + '\n'.join('    ' + x for x in e), P, 'body', E3, X2, lambda e: '\n'.join(e), 1),
    Kind('If.orelse', lambda e: 'if t:\n    b' + ('\nelse:\n' + '\n'.join('    ' + x for x in e) if e else ''), P, 'orelse', E3, X2,
         lambda e: '\n'.join(e)),
    Kind('Try.finalbody', lambda e: 'try:\n    b\nexcept E:\n    h' + ('\nfinally:\n' + '\n'.join('    ' + x for x in e) if e else ''), P,
         'finalbody', E3, X2, lambda e: '\n'.join(e)),
    Kind('Try.handlers', lambda e: 'try:\n    b\n' + ''.join(f'except {x}:\n    pass\n' for x in e) + 'finally:\n    f', P, 'handlers',
         E3, X2, lambda e: '\n'.join(f'except {x}:\n    pass' for x in e)),
    Kind('Match.cases', lambda e: 'match s:\n' + '\n'.join(f'    case {x}:\n        pass' for x in e), P, 'cases',
         ['0', '1', '2', '3'], ['8', '9'], lambda e: '\n'.join(f'case {x}:\n    pass' for x in e), 1),
    Kind('FunctionDef.decorator_list', lambda e: ''.join(f'@{x}\n' for x in e) + 'def f(): pass', P, 'decorator_list', E3, X2,
         lambda e: '\n'.join('@' + x for x in e), one=lambda x: x),
    Kind('Import.names', lambda e: f'import {_csv(e)}', P, 'names', E3, X2, _csv, 1),
    Kind('ImportFrom.names', lambda e: f'from m import {_csv(e)}', P, 'names', E3, X2, _csv, 1),
    Kind('Global.names', lambda e: f'global {_csv(e)}', P, 'names', E3, X2, _csv, 1),
    Kind('With.items', lambda e: f'with {_csv(e)}: pass', P, 'items', ['e0 as a0', 'e1 as a1', 'e2 as a2', 'e3 as a3'],
         ['x0 as b0', 'x1 as b1'], _csv, 1),
    Kind('ListComp.generators', lambda e: 'v = [z ' + ' '.join(f'for {x} in {x}s' for x in e) + ']', PV, 'generators', E3, X2,
         lambda e: ' '.join(f'for {x} in {x}s' for x in e), 1),
    Kind('comprehension.ifs', lambda e: 'v = [z for z in y' + ''.join(f' if {x}' for x in e) + ']', PV + (('generators', 0),), 'ifs', E3, X2,
         lambda e: ' '.join(f'if {x}' for x in e), one=lambda x: x),
    Kind('FunctionDef.type_params', lambda e: f'def f[{_csv(e)}](): pass' if e else 'def f(): pass', P, 'type_params',
         ['T0', 'T1', 'T2', 'T3'], ['U0', 'U1'], _csv),
    Kind('MatchSequence.patterns', lambda e: f'match s:\n    case [{_csv(e)}]: pass', P + (('cases', 0), ('pattern', None)), 'patterns', E3, X2, _csv),
    Kind('MatchOr.patterns', lambda e: f'match s:\n    case {" | ".join(e)}: pass', P + (('cases', 0), ('pattern', None)), 'patterns',
         ['0', '1', '2', '3'], ['8', '9'], lambda e: ' | '.join(e), 2),
    Kind('MatchClass.patterns', lambda e: f'match s:\n    case C({_csv(e)}): pass', P + (('cases', 0), ('pattern', None)), 'patterns', E3, X2, _csv),
    Kind('BoolOp.values', lambda e: 'v = ' + ' and '.join(e), PV, 'values', E3, X2, lambda e: ' and '.join(e), 2),
    Kind('Dict._all', lambda e: 'v = {' + _csv(e) + '}', PV, '_all', ['k0: e0', 'k1: e1', 'k2: e2', 'k3: e3'], ['j0: x0', 'j1: x1'],
         lambda e: '{' + _csv(e) + '}'),
    Kind('MatchMapping._all', lambda e: 'match s:\n    case {' + _csv(e) + '}: pass', P + (('cases', 0), ('pattern', None)), '_all',
         ['0: e0', '1: e1', '2: e2', '3: e3'], ['8: x0', '9: x1'], lambda e: '{' + _csv(e) + '}'),
    Kind('Compare._all', lambda e: 'v = ' + ' < '.join(e), PV, '_all', E3, X2, lambda e: ' < '.join(e), 2, opts={'op': '<'}),
    Kind('arguments._all', lambda e: f'def f({_csv(e)}): pass', P + (('args', None),), '_all', E3, X2, _csv),
    Kind('Module._body', lambda e: "'''doc'''\n" + '\n'.join(e), (), '_body', E3, X2, lambda e: '\n'.join(e)),
]
MB = ['é0', 'ü1', 'ñ2', 'ö3']   # multi-byte identifiers before the edit position
KINDS += [
    Kind('Global.names(mb)', lambda e: f'global {_csv(e)}', P, 'names', MB, ['δ', 'x1'], _csv, 1),
    Kind('Nonlocal.names(mb)', lambda e: f'def f():\n    nonlocal {_csv(e)}', P + (('body', 0),), 'names', MB, ['δ', 'x1'], _csv, 1),
    Kind('List.elts(mb)', lambda e: f'é = [{_csv(e)}]', PV, 'elts', MB, ['δ', 'x1'], _csv),
    Kind('Call._args(mb)', lambda e: f'ü({_csv(e)})', PV, '_args', MB, ['δ', 'x1'], _csv),
    Kind('Import.names(mb)', lambda e: f'import {_csv(e)}', P, 'names', MB, ['δ', 'x1'], _csv, 1),
    Kind('Dict._all(mb)', lambda e: 'é = {' + _csv(e) + '}', PV, '_all', ["'é': e0", "'ü': e1", "'ñ': e2", "'ö': e3"], ["'δ': x0", 'j1: x1'],
         lambda e: '{' + _csv(e) + '}'),
]
MIXA = ['e0', 'a1=e1', '*e2', '**e3']  # positional, keyword, starred after the keyword, double-starred: merged by source position
KINDS += [
    Kind('Call._args(mixed,kw)', lambda e: f'f({_csv(e)})', PV, '_args', MIXA, ['b0=x0', 'b1=x1'], _csv),
    Kind('Call._args(mixed,pos)', lambda e: f'f({_csv(e)})', PV, '_args', MIXA, ['x0', '*x1'], _csv),
    Kind('ClassDef._bases(mixed,kw)', lambda e: f'class C({_csv(e)}): pass' if e else 'class C: pass', P, '_bases', MIXA, ['b0=x0', 'b1=x1'], _csv),
    Kind('ClassDef._bases(mixed,pos)', lambda e: f'class C({_csv(e)}): pass' if e else 'class C: pass', P, '_bases', MIXA, ['x0', '*x1'], _csv),
]
def _args_around_kw(e):
    """positional / starred arguments around a fixed keyword: the keyword sits in front of the first starred argument whenever
    that is valid (all plain arguments first), else at the end. The two fields are separate lists in the AST, so where the
    keyword stands does not matter to the structural comparison."""
    if all(not x.startswith('*') for x in e[:next((i for i, x in enumerate(e) if x.startswith('*')), len(e))]) and \
            all(x.startswith('*') for x in e[next((i for i, x in enumerate(e) if x.startswith('*')), len(e)):]):
        k = next((i for i, x in enumerate(e) if x.startswith('*')), len(e))
        return _csv(e[:k] + ['k=v'] + e[k:])
    return _csv(e + ['k=v'])


KINDS += [  # one of the two real fields of a call / class header whose elements are interleaved with the other field's in the source
    Kind('Call.keywords(interleaved)', lambda e: f'f({_csv(e[:1] + ["*s"] + e[1:])})', PV, 'keywords',
         ['a0=e0', 'a1=e1', 'a2=e2', 'a3=e3'], ['b0=x0', 'b1=x1'], _csv),
    Kind('ClassDef.keywords(interleaved)', lambda e: f'class C({_csv(e[:1] + ["*s"] + e[1:])}): pass', P, 'keywords',
         ['a0=e0', 'a1=e1', 'a2=e2', 'a3=e3'], ['b0=x0', 'b1=x1'], _csv),
    Kind('Call.args(interleaved)', lambda e: f'f({_args_around_kw(e)})', PV, 'args', ['e0', '*e1', '*e2', '*e3'], ['*x0', '*x1'], _csv),
    Kind('ClassDef.bases(interleaved)', lambda e: f'class C({_args_around_kw(e)}): pass', P, 'bases', ['e0', '*e1', '*e2', '*e3'],
         ['*x0', '*x1'], _csv),
]
KINDS += [  # option-dependent container behaviour
    Kind('BoolOp.values(op_side=right)', lambda e: 'v = ' + ' and '.join(e), PV, 'values', E3, X2, lambda e: ' and '.join(e), 2,
         opts={'op_side': 'right'}),
    Kind('Compare._all(op_side=right)', lambda e: 'v = ' + ' < '.join(e), PV, '_all', E3, X2, lambda e: ' < '.join(e), 2,
         opts={'op': '<', 'op_side': 'right'}),
    Kind('Set.elts(set_norm=star)', lambda e: 'v = {' + (_csv(e) if e else '*()') + '}', PV, 'elts', E3, X2, _csv, 0, startmin=1),
    Kind('Set.elts(set_norm=call)', lambda e: 'v = {' + _csv(e) + '}' if e else 'v = set()', PV, 'elts', E3, X2, _csv, 0,
         opts={'set_norm': 'call'}, startmin=1),
]
def _else(head):
    return lambda e: head + ('\nelse:\n' + '\n'.join('    ' + x for x in e) if e else '')


IFS = ['e0', 'if e1: pass', 'e2', 'e3']
KINDS += [  # statement lists whose elements may be `if` statements: only an If's own orelse may spell a lone one as `elif`
    Kind('For.orelse(if)', _else('for i in j:\n    b'), P, 'orelse', IFS, ['if x0: pass', 'x1'], lambda e: '\n'.join(e)),
    Kind('While.orelse(if)', _else('while t:\n    b'), P, 'orelse', IFS, ['if x0: pass', 'x1'], lambda e: '\n'.join(e)),
    Kind('Try.orelse(if)', _else('try:\n    b\nexcept E:\n    h'), P, 'orelse', IFS, ['if x0: pass', 'x1'], lambda e: '\n'.join(e)),
    Kind('If.orelse(if)', _else('if t:\n    b'), P, 'orelse', IFS, ['if x0: pass', 'x1'], lambda e: '\n'.join(e)),
    Kind('AsyncFor.orelse(if)', _else('async def f():\n    async for i in j:\n        b').__call__ if False else
         (lambda e: 'async def f():\n    async for i in j:\n        b' + ('\n    else:\n' + '\n'.join('        ' + x for x in e) if e else '')),
         P + (('body', 0),), 'orelse', IFS, ['if x0: pass', 'x1'], lambda e: '\n'.join(e)),
]
def _kw(word):
    return lambda e: word + (' ' if e and (e[0][0].isalnum() or e[0][0] == '_') else '') + ', '.join(e)


TIGHT = ['[e0][0]', '(e1).a', '[e2][0]', '(e3).a']  # elements that can stand directly behind a keyword
KINDS += [  # the container follows a keyword without a blank: an element put at the front has to stay apart from the keyword
    Kind('Delete.targets(tight)', _kw('del'), P, 'targets', TIGHT, X2, _csv, 1),
    Kind('Tuple.elts(return tight)', lambda e: 'def f():\n    ' + _kw('return')(e), P + (('body', 0), ('value', None)), 'elts',
         ['-e0', '[e1]', '-e2', '(e3)'], X2, _csv, 2),
    Kind('Tuple.elts(in tight)', lambda e: 'for i in' + (' ' if not e or e[0][0].isalnum() else '') + (', '.join(e) if e else '()') + ': pass', P + (('iter', None),), 'elts',
         ['-e0', '[e1]', '-e2', '(e3)'], X2, _csv, 2),
]
KIND = {k.name: k for k in KINDS}


DELIMITED_ONE = {'List.elts': '[x0, x1]', 'Tuple.elts': '(x0, x1)', 'Set.elts': '{x0, x1}', 'Delete.targets': '[x0, x1]',
                 'Call.args': '[x0, x1]', 'List.elts(mb)': '(δ, x1)'}


def bounds(n):
    vals = list(range(-(n + 2), n + 3)) + ['end']
    return [(a, b) for a in vals for b in vals]


def model_slice(n, start, stop):
    s = n if start == 'end' else slice(start, None).indices(n)[0]
    t = n if stop == 'end' else slice(None, stop).indices(n)[1]
    return s, max(s, t)


def layout(src, lay):
    if lay == 'bare':
        return src
    if lay == 'stair':  # first two elements on the opening line, the rest on the next line at a *smaller* column
        for o, c in (('[', ']'), ('(', ')'), ('{', '}')):
            i = src.find(o)
            j = src.rfind(c)
            if i >= 0 and j > i and '\n' not in src and src[i:j].count(',') >= 2:
                parts = [p.strip() for p in src[i + 1:j].split(',') if p.strip()]
                new = src[:i + 1] + ', '.join(parts[:2]) + ',\n ' + ',\n '.join(parts[2:]) + src[j:]
                t = O.try_parse(new)
                if t is not None and O.dump(t) == O.dump(ast.parse(src)):
                    return new
                return None
        return None
    # multi-line with comments: only for bracketed comma lists on one line
    for o, c in (('[', ']'), ('(', ')'), ('{', '}')):
        i = src.find(o)
        j = src.rfind(c)
        if i >= 0 and j > i and '\n' not in src and ',' in src[i:j]:
            inner = src[i + 1:j]
            parts = [p.strip() for p in inner.split(',') if p.strip()]
            new = src[:i + 1] + '  # c0\n' + ''.join(f'    {p},  # c{k + 1}\n' for k, p in enumerate(parts)) + src[j:]
            t = O.try_parse(new)
            if t is not None and O.dump(t) == O.dump(ast.parse(src)):
                return new
            return None
    return None


ENTRIES = ('put_slice', 'view_slice', 'put_one_false')
ENTRIES_DEL = ('put_slice_none', 'del_view_slice')


def do_entry(fst, kind, root, entry, start, stop, code):
    n = node_at(root, kind.path)
    f = kind.field
    o = {'norm': True, **kind.opts}
    if entry == 'put_slice':
        n.put_slice(code, start, stop, f, **o)
    elif entry == 'put_one_false':
        n.put(code, start, stop, f, one=False, **o)
    elif entry == 'view_slice':
        with fst.FST.options(norm=True, **kind.opts):
            v = getattr(n, f)
            v[_sl(start, stop)] = code
    elif entry == 'put_slice_none':
        n.put_slice(None, start, stop, f, **o)
    elif entry == 'del_view_slice':
        with fst.FST.options(norm=True, **kind.opts):
            v = getattr(n, f)
            del v[_sl(start, stop)]
    else:
        raise ValueError(entry)


def _sl(start, stop):
    return slice(None if start == 'end' else start, None if stop == 'end' else stop) if start != 'end' else slice(10 ** 6, None if stop == 'end' else stop)


def judge(fst, kind, cid, src, root, exp_els, exc, res, params, rep, changed):
    want_src = kind.tmpl(exp_els)
    want = O.try_parse(want_src) if len(exp_els) >= kind.minlen else None
    res.traces += 1
    if exc is not None:
        res.outcomes['refused:' + exc.__class__.__name__] += 1
        try:
            unchanged = root.src == src
        except Exception:  # noqa: BLE001
            unchanged = False
        if not unchanged:
            res.fail(cid, 'refused-but-changed', f'src={src!r}\n{exc!r}\nnow={root.src!r}', params, rep)
            return
        if isinstance(exc, NotImplementedError) or want is None:
            return
        if exc.__class__.__name__ in ('AttributeError', 'TypeError', 'KeyError', 'AssertionError', 'UnboundLocalError'):
            res.fail(cid, 'internal-error:' + exc.__class__.__name__, f'src={src!r}\n{exc!r}', params, rep)
            return
        other = bool(re.match(r"cannot put to (Call|ClassDef)\.(args|bases|keywords) slice because it (precedes|follows) (args|bases|keywords), try the '_(args|bases)' field$", str(exc)))
        res.fail(cid, 'valid-request-refused:' + exc.__class__.__name__,
                 f'src={src!r}\nmodel result={want_src!r}\n{exc!r}',
                 dict(params, exc=exc.__class__.__name__, msg=str(exc)[:60], other_field_refusal=other), rep)
        return
    bad = live_vs_parse(root, 'Module')
    if bad:
        res.fail(cid, 'C01-after-edit', f'src={src!r}\n{bad}', params, rep)
        return
    if want is None:
        res.outcomes['accepted-below-min-length-or-model-invalid'] += 1
        return
    got = O.dump(ast.parse(root.src))
    if got != O.dump(want):
        res.fail(cid, 'result-differs-from-list-model', f'src={src!r}\nresult={root.src!r}\nmodel ={want_src!r}', params, rep)
        return
    res.state(root.src)
    if changed:
        res.nontriv(cid)
    res.outcomes['ok'] += 1


def run_slice_cases(fst, kind, n, res, tier):
    old = kind.el[:n]
    base = kind.tmpl(old)
    if n < kind.startmin or O.try_parse(base) is None:
        return
    for lay in ('bare', 'ml', 'stair'):
        src = layout(base, lay)
        if src is None:
            continue
        res.state(src)
        bnds = bounds(n) if lay == 'bare' else [(a, b) for a in range(n + 1) for b in range(a, n + 1)]
        for start, stop in bnds:
            s, t = model_slice(n, start, stop)
            for m in (0, 1, 2):
                new = kind.new[:m]
                exp = old[:s] + new + old[t:]
                code = kind.code(new)
                entries = (ENTRIES if m else ENTRIES_DEL) if (tier == 'thorough' or lay == 'bare') else (ENTRIES[:1] if m else ENTRIES_DEL[:1])
                for entry in entries:
                    if entry in ENTRIES_DEL and m:
                        continue
                    cid = f'C03/{kind.name}/n{n}/[{start}:{stop}]/m{m}/{lay}/{entry}'
                    params = {'kind': kind.name, 'entry': entry, 'reversed_bounds': _reversed(n, start, stop), 'lay': lay}
                    rep = {'kind': kind.name, 'n': n, 'start': start, 'stop': stop, 'm': m, 'lay': lay, 'entry': entry}
                    root = fst.FST(src, 'exec')
                    res.evals += 1
                    res.transitions += 1
                    exc = None
                    try:
                        with deadline(10):
                            do_entry(fst, kind, root, entry, start, stop, code if entry not in ENTRIES_DEL else None)
                    except CaseTimeout:
                        res.fail(cid, 'hang', '', params, rep)
                        continue
                    except Exception as e:  # noqa: BLE001
                        exc = e
                    judge(fst, kind, cid, src, root, exp, exc, res, params, rep, exp != old)
            if lay == 'bare' and kind.name in DELIMITED_ONE and (start, stop) in [(a, b) for a in range(n + 1) for b in range(a, n + 1)]:
                # source text that is itself a delimited sequence is ONE new element, as a string and as a list of lines
                s, t = model_slice(n, start, stop)
                elem = DELIMITED_ONE[kind.name]
                exp = old[:s] + [elem] + old[t:]
                for form in ('str', 'lines', 'lines2'):
                    code = elem if form == 'str' else [elem] if form == 'lines' else elem.replace(', ', ',\n ').split('\n')
                    cid = f'C03/{kind.name}/n{n}/[{start}:{stop}]/delimited-{form}/put_slice'
                    params = {'kind': kind.name, 'entry': 'put_slice', 'reversed_bounds': False, 'lay': lay}
                    rep = {'kind': kind.name, 'n': n, 'start': start, 'stop': stop, 'delimited': form}
                    root = fst.FST(src, 'exec')
                    res.evals += 1
                    res.transitions += 1
                    exc = None
                    try:
                        with deadline(10):
                            do_entry(fst, kind, root, 'put_slice', start, stop, code)
                    except CaseTimeout:
                        res.fail(cid, 'hang', '', params, rep)
                        continue
                    except Exception as e:  # noqa: BLE001
                        exc = e
                    judge(fst, kind, cid, src, root, exp, exc, res, params, rep, True)
    res.sample({'kind': kind.name, 'n': n, 'base': base})


def _reversed(n, start, stop):
    def norm(v):
        if v == 'end':
            return n
        return max(0, v + n) if v < 0 else min(n, v)
    return norm(stop) < norm(start)


def run_index_cases(fst, kind, n, res, tier):
    for lay in ('bare', 'stair'):
        _run_index_cases(fst, kind, n, res, tier, lay)


def _run_index_cases(fst, kind, n, res, tier, lay):
    """single index put / delete / insert / append / extend / prepend / prextend / attribute assignment."""
    old = kind.el[:n]
    src = kind.tmpl(old)
    if n < kind.startmin or O.try_parse(src) is None:
        return
    src = layout(src, lay)
    if src is None:
        return
    x = kind.new[0]
    one_code = kind.one(x)
    ins_code = kind.code([x])
    two_code = kind.code(kind.new[:2])

    def run(cid, fn, exp, exc_ok=None):
        params = {'kind': kind.name, 'entry': cid.rsplit('/', 1)[-1].split('(')[0], 'reversed_bounds': False, 'lay': lay}
        rep = {'kind': kind.name, 'n': n, 'index_case': cid}
        root = fst.FST(src, 'exec')
        res.evals += 1
        res.transitions += 1
        exc = None
        try:
            with deadline(10):
                with fst.FST.options(norm=True, **kind.opts):
                    fn(node_at(root, kind.path))
        except CaseTimeout:
            res.fail(cid, 'hang', '', params, rep)
            return
        except Exception as e:  # noqa: BLE001
            exc = e
        if exp is None:  # the model raises IndexError
            res.traces += 1
            if exc is None:
                res.fail(cid, 'out-of-range-index-accepted', f'src={src!r}\nnow={root.src!r}', params, rep)
            elif not isinstance(exc, (IndexError, ValueError, NotImplementedError)):
                res.fail(cid, 'out-of-range-index-wrong-exception:' + exc.__class__.__name__, repr(exc), params, rep)
            elif root.src != src:
                res.fail(cid, 'refused-but-changed', f'now={root.src!r}', params, rep)
            else:
                res.outcomes['index-error-like-list'] += 1
            return
        judge(fst, kind, cid, src, root, exp, exc, res, params, rep, exp != old)

    f = kind.field
    pre = f'C03/{kind.name}/n{n}/' + ('' if lay == 'bare' else lay + '/')
    for i in list(range(-(n + 2), n + 3)):
        # put one element at index i (replace): list semantics: IndexError outside -n..n-1
        ok = -n <= i < n
        exp = None
        if ok:
            exp = list(old)
            exp[i] = x
        run(pre + f'put({i})', lambda nd, i=i: nd.put(one_code, i, field=f), exp)
        run(pre + f'view[{i}]=', lambda nd, i=i: getattr(nd, f).__setitem__(i, one_code), exp)
        exp = None
        if ok:
            exp = list(old)
            del exp[i]
        run(pre + f'del view[{i}]', lambda nd, i=i: getattr(nd, f).__delitem__(i), exp)
        run(pre + f'put(None,{i})', lambda nd, i=i: nd.put(None, i, field=f), exp)
        exp = list(old)
        exp.insert(i, x)
        run(pre + f'insert({i})', lambda nd, i=i: nd.insert(ins_code, i, f, **kind.opts), exp)
        run(pre + f'view.insert({i})', lambda nd, i=i: getattr(nd, f).insert(ins_code, i, **kind.opts), exp)
    run(pre + 'insert(end)', lambda nd: nd.insert(ins_code, 'end', f, **kind.opts), old + [x])
    run(pre + 'append', lambda nd: nd.append(ins_code, f, **kind.opts), old + [x])
    run(pre + 'view.append', lambda nd: getattr(nd, f).append(ins_code, **kind.opts), old + [x])
    run(pre + 'prepend', lambda nd: nd.prepend(ins_code, f, **kind.opts), [x] + old)
    run(pre + 'view.prepend', lambda nd: getattr(nd, f).prepend(ins_code, **kind.opts), [x] + old)
    run(pre + 'extend', lambda nd: nd.extend(two_code, f, **kind.opts), old + kind.new[:2])
    run(pre + 'view.extend', lambda nd: getattr(nd, f).extend(two_code, **kind.opts), old + kind.new[:2])
    run(pre + 'prextend', lambda nd: nd.prextend(two_code, f, **kind.opts), kind.new[:2] + old)
    run(pre + 'attr=', lambda nd: setattr(nd, f, two_code), kind.new[:2])
    run(pre + 'put_slice(default bounds)', lambda nd: nd.put_slice(two_code, field=f), kind.new[:2])
    if n and not f.startswith('_') and not kind.name.startswith(('Global.names', 'Nonlocal.names')):  # element-node methods (virtual fields and string lists have no element nodes of their own)
        run(pre + 'remove(last)', lambda nd: getattr(nd, f)[n - 1].remove(), old[:-1])
        run(pre + 'remove(first)', lambda nd: getattr(nd, f)[0].remove(), old[1:])
        run(pre + 'replace(first)', lambda nd: getattr(nd, f)[0].replace(one_code), [x] + old[1:])
        run(pre + 'replace(first,one=False)', lambda nd: getattr(nd, f)[0].replace(two_code, one=False), kind.new[:2] + old[1:])


def run_subview_cases(fst, kind, n, res, tier):
    """operations through a sub-view view[a:b]: indices are relative to the view, the rest of the field is untouched."""
    old = kind.el[:n]
    src = kind.tmpl(old)
    if n < max(kind.minlen, 2) or O.try_parse(src) is None:
        return
    x = kind.new[0]
    ins_code = kind.code([x])
    one_code = kind.one(x)
    f = kind.field
    for a in range(n + 1):
        for b in range(a, n + 1):
            sub = old[a:b]
            L = len(sub)
            for i in range(-(L + 2), L + 3):
                cases = []
                e = list(sub)
                e.insert(i, x)
                cases.append(('insert', lambda v, i=i: v.insert(ins_code, i, **kind.opts), old[:a] + e + old[b:]))
                if -L <= i < L:
                    e = list(sub)
                    e[i] = x
                    cases.append(('setitem', lambda v, i=i: v.__setitem__(i, one_code), old[:a] + e + old[b:]))
                    e = list(sub)
                    del e[i]
                    cases.append(('delitem', lambda v, i=i: v.__delitem__(i), old[:a] + e + old[b:]))
                else:
                    cases.append(('setitem', lambda v, i=i: v.__setitem__(i, one_code), None))
                    cases.append(('delitem', lambda v, i=i: v.__delitem__(i), None))
                if i == 0:
                    cases.append(('append', lambda v: v.append(ins_code, **kind.opts), old[:b] + [x] + old[b:]))
                    cases.append(('prepend', lambda v: v.prepend(ins_code, **kind.opts), old[:a] + [x] + old[a:]))
                    cases.append(('extend', lambda v: v.extend(kind.code(kind.new[:2]), **kind.opts), old[:b] + kind.new[:2] + old[b:]))
                for name, fn, exp in cases:
                    cid = f'C03/{kind.name}/n{n}/view[{a}:{b}].{name}({i})'
                    params = {'kind': kind.name, 'entry': 'subview.' + name, 'reversed_bounds': False, 'lay': 'bare'}
                    rep = {'kind': kind.name, 'n': n, 'subview': cid}
                    root = fst.FST(src, 'exec')
                    res.evals += 1
                    res.transitions += 1
                    exc = None
                    try:
                        with deadline(10):
                            with fst.FST.options(norm=True, **kind.opts):
                                fn(getattr(node_at(root, kind.path), f)[a:b])
                    except CaseTimeout:
                        res.fail(cid, 'hang', '', params, rep)
                        continue
                    except Exception as ex:  # noqa: BLE001
                        exc = ex
                    if exp is None:
                        res.traces += 1
                        if exc is None:
                            res.fail(cid, 'out-of-range-index-accepted', f'src={src!r}\nnow={root.src!r}', params, rep)
                        elif root.src != src:
                            res.fail(cid, 'refused-but-changed', f'now={root.src!r}', params, rep)
                        else:
                            res.outcomes['index-error-like-list'] += 1
                        continue
                    judge(fst, kind, cid, src, root, exp, exc, res, params, rep, True)


VIEWHIST_DEEP = ('List.elts', 'Call._args', 'Call.keywords(interleaved)', 'Module.body', 'If.orelse', 'Try.handlers', 'Dict._all', 'BoolOp.values',
                 'Compare._all', 'arguments._all', 'With.items', 'MatchOr.patterns', 'Global.names')


def _view_ops(L):
    """operation menu through a view whose window currently has L elements: (name, arity of new code)"""
    out = [('append', None), ('prepend', None), ('extend', None)]
    for i in range(L + 1):
        out.append(('insert', i))
    for i in range(L):
        out += [('setitem', i), ('setnone', i), ('delitem', i)]
    for i in range(L + 1):
        for j in range(i, min(L, i + 2) + 1):
            out.append(('setslice', (i, j)))
            if j > i:
                out.append(('delslice', (i, j)))
    return out


def run_viewhist_cases(fst, kind, n, res, tier):
    """Histories of operations through ONE view object view[a:b] (explicit-state search over the window model): the view's bounds have
    to follow every operation made through it. Reference: a Python list for the field and a (start, stop) window; after every step
    the whole program, len(view) and the sources of the view's elements are compared with the model."""
    old = kind.el[:n]
    src = kind.tmpl(old)
    if n < max(kind.minlen, 2) or O.try_parse(src) is None:
        return
    f = kind.field
    depth = 3 if (tier == 'thorough' and n == 3 and kind.name in VIEWHIST_DEEP) else 2
    news = [kind.new[0], kind.new[1], kind.new[0] if len(kind.new) < 3 else kind.new[2]]

    def model(lst, a, b, op, arg, x, y):
        lst = list(lst)
        if op == 'append':
            lst.insert(b, x)
            return lst, a, b + 1
        if op == 'prepend':
            lst.insert(a, x)
            return lst, a, b + 1
        if op == 'extend':
            lst[b:b] = [x, y]
            return lst, a, b + 2
        if op == 'insert':
            lst.insert(a + arg, x)
            return lst, a, b + 1
        if op == 'setitem':
            lst[a + arg] = x
            return lst, a, b
        if op in ('setnone', 'delitem'):
            del lst[a + arg]
            return lst, a, b - 1
        i, j = arg
        if op == 'setslice':
            lst[a + i:a + j] = [x, y]
            return lst, a, b + 2 - (j - i)
        del lst[a + i:a + j]
        return lst, a, b - (j - i)

    def do(v, op, arg, x, y):
        if op == 'append':
            v.append(kind.code([x]), **kind.opts)
        elif op == 'prepend':
            v.prepend(kind.code([x]), **kind.opts)
        elif op == 'extend':
            v.extend(kind.code([x, y]), **kind.opts)
        elif op == 'insert':
            v.insert(kind.code([x]), arg, **kind.opts)
        elif op == 'setitem':
            v[arg] = kind.one(x)
        elif op == 'setnone':
            v[arg] = None
        elif op == 'delitem':
            del v[arg]
        elif op == 'setslice':
            v[arg[0]:arg[1]] = kind.code([x, y])
        else:
            del v[arg[0]:arg[1]]

    def explore(a, b, hist, lst, wa, wb):
        """hist: list of (op, arg) already applied (model state lst, window wa:wb); try every next operation"""
        for op, arg in _view_ops(wb - wa):
            step = len(hist)
            x = news[step] + ('' if step < 2 else '')
            y = news[(step + 1) % 3]
            h2 = hist + [(op, arg)]
            cid = f'C03/{kind.name}/n{n}/view[{a}:{b}]:' + ';'.join(f'{o}({g})' for o, g in h2)
            params = {'kind': kind.name, 'entry': 'viewhist.' + op, 'reversed_bounds': False, 'lay': 'bare'}
            rep = {'kind': kind.name, 'n': n, 'viewhist': [a, b, [[o, g] for o, g in h2]]}
            root = fst.FST(src, 'exec')
            res.evals += 1
            exc = None
            l2, a2, b2 = lst, wa, wb
            try:
                with deadline(10):
                    with fst.FST.options(norm=True, **kind.opts):
                        v = getattr(node_at(root, kind.path), f)[a:b]
                        ml, ma, mb = old, a, b
                        for k, (o, g) in enumerate(h2):  # replay the prefix (it succeeded before) and take the new step
                            xx, yy = news[k], news[(k + 1) % 3]
                            if k == len(h2) - 1:
                                pre_src = root.src
                            do(v, o, g, xx, yy)
                            res.transitions += 1
                            ml, ma, mb = model(ml, ma, mb, o, g, xx, yy)
                        l2, a2, b2 = ml, ma, mb
            except CaseTimeout:
                res.fail(cid, 'hang', '', params, rep)
                continue
            except Exception as ex:  # noqa: BLE001
                exc = ex
                l2, a2, b2 = model(lst, wa, wb, op, arg, x, y)
            collapsed = len(l2) < max(kind.minlen, kind.startmin)  # normalisation turns the container into another kind of node
            if collapsed:
                params['container_collapsed'] = True
            if exc is not None and len(h2) > 1 and root.src != pre_src:
                res.traces += 1
                res.fail(cid, 'refused-but-changed', f'src={src!r}\n{exc!r}\nnow={root.src!r}', params, rep)
                continue
            before = res.nfails
            judge(fst, kind, cid, src if len(h2) == 1 else (pre_src if exc is not None else src), root, l2, exc, res, params, rep, True)
            if exc is not None or res.nfails != before or collapsed:
                continue  # a view of a container that no longer exists is not read
            # the view itself: length and elements as the window model says
            try:
                got_len = len(v)
                got_els = [e.src if hasattr(e, 'src') else str(e) for e in v]
            except Exception as ex:  # noqa: BLE001
                res.fail(cid, 'view-unreadable-after-edit:' + ex.__class__.__name__, f'src={src!r}\nnow={root.src!r}\n{ex!r}', params, rep)
                continue
            mroot = fst.FST(kind.tmpl(l2), 'exec')  # the model program's own view of the same window
            want_els = [e.src if hasattr(e, 'src') else str(e) for e in getattr(node_at(mroot, kind.path), f)[a2:b2]]
            if got_len != b2 - a2 or [_ws(e) for e in got_els] != [_ws(e) for e in want_els]:
                res.fail(cid, 'view-window-differs-from-model', f'src={src!r}\nnow={root.src!r}\nview has {got_len}: {got_els}\nmodel window [{a2}:{b2}] of {l2}: {want_els}',
                         params, rep)
                continue
            if len(h2) < depth:
                explore(a, b, h2, l2, a2, b2)

    for a in range(n + 1):
        for b in range(a, n + 1):
            explore(a, b, [], old, a, b)


def _ws(s):
    return re.sub(r'\s+', '', s)


def shards(tier):
    nmax = 3 if tier == 'quick' else 4
    out = []
    for k in KINDS:
        for n in range(0, nmax + 1):
            out.append({'kind': k.name, 'n': n, 'what': 'slice'})
            out.append({'kind': k.name, 'n': n, 'what': 'index'})
            if n >= 2:
                out.append({'kind': k.name, 'n': n, 'what': 'subview'})
            if n == 3 or (n == 4 and tier == 'thorough'):
                out.append({'kind': k.name, 'n': n, 'what': 'viewhist'})
    return out


def run_shard(desc, tier, res):
    import fst
    kind = KIND[desc['kind']]
    if desc['what'] == 'slice':
        run_slice_cases(fst, kind, desc['n'], res, tier)
    elif desc['what'] == 'subview':
        run_subview_cases(fst, kind, desc['n'], res, tier)
    elif desc['what'] == 'viewhist':
        run_viewhist_cases(fst, kind, desc['n'], res, tier)
    else:
        run_index_cases(fst, kind, desc['n'], res, tier)


def replay(rep, res):
    import fst
    kind = KIND[rep['kind']]
    if 'viewhist' in rep:
        run_viewhist_cases(fst, kind, rep['n'], res, 'quick' if len(rep['viewhist'][2]) <= 2 else 'thorough')
    elif 'subview' in rep:
        run_subview_cases(fst, kind, rep['n'], res, 'quick')
    elif 'index_case' in rep:
        run_index_cases(fst, kind, rep['n'], res, 'quick')
    else:
        run_slice_cases(fst, kind, rep['n'], res, 'quick')
