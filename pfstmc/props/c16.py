"""C16 - scope analysis agrees with Python's own symbol table.

enum engine over all scope-nesting shapes up to depth 3 x binding constructs; judge: symtable.symtable() of a twin program
in which list/set/dict comprehensions are rewritten as generator expressions (PEP 709 inlining merges their symbols into
the enclosing table on 3.12), scopes matched by (kind, first line). A small reference implementation of the scoping rules
decides node membership and is itself validated against symtable on every program."""
from __future__ import annotations

import ast
import itertools
import symtable

from .. import oracle as O

ID = 'C16'
LEVEL = 'model_checking'
TECHNIQUE = ('bounded exhaustive enumeration of scope-nesting shapes x binding constructs on the real scope walk / scope_symbols, '
             "judged by CPython's symtable (twin program for PEP 709) and a reference scoping model validated against symtable")
LEVEL_TEXT = ('every nesting of {def, async def, class, lambda, list/set/dict comprehension, generator expression} up to depth 4 (thorough: 5), each '
              'scope carrying every binding construct (parameters of all kinds, defaults, annotations, decorators, bases, global/'
              'nonlocal, augmented and annotated assignment, for/with/import/except-as/match captures/walrus/del), is analysed by '
              'the real code in every scope and compared name-by-name and class-by-class with symtable')
LEVEL_NOTE = ("trusted: CPython symtable; comprehension twins are generator expressions (identical scoping by the language "
              "definition); AugAssign targets are 'load' for pfst by documentation and unjudged for that class")
RULE = ('enum: case = (program shape, scope); non-trivial = distinct (program, scope) with >= 3 symbols compared; states = distinct '
        'scopes analysed; traces = scopes compared with symtable')
ASSUMPTIONS = ['programs are generated so that every scope starts on its own line (scope matching by kind+line)',
               'type parameter scopes (PEP 695) are outside the generated alphabet']
BOUNDS = {'quick': 'all shapes of depth <= 4 over 10 scope kinds (def, async def, class with / without bases, lambda with / without defaults, four comprehension kinds), again with the nested expression scope placed directly as first / second iterable of its comprehension, + 15 hand-written construct programs; every scope',
          'thorough': 'the same to depth <= 5'}

EXPR_KINDS = ('lambda', 'lambda0', 'listcomp', 'genexp', 'setcomp', 'dictcomp')
STMT_KINDS = ('def', 'class', 'classkw', 'asyncdef')


def indent(lines, n=4):
    return [' ' * n + l for l in lines]


def render(kinds, d=0, ctx=None):
    """lines of the scope `kinds[d]` with the rest nested inside; returns ('stmt'|'expr', lines)."""
    ctx = ctx or {'fn': None, 'cls_nearest': False}
    k = kinds[d]
    rest = kinds[d + 1:]
    s = str(d)
    up = f'up{d - 1}_' if d else 'modv'

    def child(inner_ctx, as_stmt):
        if not rest:
            return ([f'leaf{s} = 0'] if as_stmt else ['0'])
        typ, lines = render(kinds, d + 1, inner_ctx)
        if as_stmt:
            return lines if typ == 'stmt' else [f'ch{s} = ('] + indent(lines) + [')']
        assert typ == 'expr'
        return ['('] + indent(lines) + [')']

    if k in ('def', 'asyncdef'):
        inner = {'fn': d, 'cls_nearest': False}
        head = ('async def' if k == 'asyncdef' else 'def')
        body = [
            f'global g{s}',
            f'up{s}_ = 1',
            f'nl{s} = 2',
            f'loc{s} = p{s} + fr{s} + {up}',
            f'aug{s} += q{s}',
            f'ann{s}: annt{s} = a{s}',
            f'ana{s}: anat{s}',
            f'for it{s} in rng{s}: pass',
            f'with cm{s} as w{s}: pass',
            f'import imp{s}, pk{s}.sub',
            f'import im{s}.x as ima{s}',
            f'from m{s} import fn{s}, fo{s} as fa{s}',
            'try: pass',
            f'except Ex{s} as ex{s}: pass',
            f'match subj{s}:',
            f'    case [ca{s}, *cs{s}]: pass',
            f"    case {{'k': cv{s}, **cr{s}}}: pass",
            f'    case Cls{s}(at=ck{s}) as cw{s}: pass',
            f'del dl{s}, dlu{s}',
            f'dlr{s} = dlu{s}',
            f'(wl{s} := wv{s})',
            f'g{s} = kw{s}',
        ]
        if ctx['fn'] is not None:
            body.insert(1, f"nonlocal nl{ctx['fn']}")
            body.append(f"nl{ctx['fn']} = k{s}")
        body += child(inner, True)
        body.append(f'return loc{s}')
        lines = [f'@dec{s}(darg{s})',
                 f'{head} f{s}(po{s}, /, p{s}: pa{s}, q{s}=dq{s}, *a{s}: va{s}, kn{s}: kna{s}, k{s}: ka{s} = dk{s}, **kw{s}: kwa{s}) -> rt{s}:'] + indent(body)
        return 'stmt', lines
    if k in ('class', 'classkw'):
        inner = {'fn': ctx['fn'], 'cls_nearest': True}
        body = [f'cv{s} = cfr{s} + {up} + cdu{s}', f'del cdu{s}', f'up{s}_ = 1', f'global cg{s}', f'cg{s} = 1', f'def meth{s}(self): return cv{s}, self']
        body += child(inner, True)
        head = [f'@cdec{s}', f'class C{s}(B{s}, metaclass=M{s}):'] if k == 'class' else [f'class C{s}(metaclass=KM{s}, **ckw{s}):']
        return 'stmt', head + indent(body)  # 'classkw': no decorator, no base - only keywords are evaluated in the enclosing scope
    if k == 'lambda':
        inner = {'fn': ctx['fn'], 'cls_nearest': False, 'lam': True}
        ch = child(inner, False)
        # defaults are evaluated where the lambda stands: a walrus in one binds there (inside a comprehension: in the enclosing function)
        dflt = f'ldq{s}' if ctx.get('cls_nearest') or ctx.get('no_walrus') else f'(lwd{s} := ldq{s})'
        return 'expr', [f'lambda lp{s}, lq{s}={dflt}, *la{s}, lk{s}=ldk{s}, **lkw{s}: (lp{s}, lfr{s}, {up},'] + indent(ch) + [')']
    if k == 'lambda0':  # a lambda without any default: nothing of it belongs to the enclosing scope
        inner = {'fn': ctx['fn'], 'cls_nearest': False, 'lam': True}
        ch = child(inner, False)
        return 'expr', [f'lambda lp{s}, *la{s}, **lkw{s}: (lp{s}, lfr{s}, {up},'] + indent(ch) + [')']
    # comprehensions; ctx['pos'] says where a nested expression scope sits: in the element (default), directly as the first
    # iterable (evaluated in the *enclosing* scope) or directly as the second iterable (inside the comprehension scope)
    inner = dict(ctx)
    pos = ctx.get('pos', 'elt') if rest else 'elt'
    if pos != 'elt':
        inner['no_walrus'] = True  # ':=' is not allowed anywhere inside a comprehension iterable expression
    ch = child(inner, False)
    walrus = '' if ctx.get('cls_nearest') or ctx.get('no_walrus') else f'(cw{s} := (e{s}, (cwn{s} := e{s}))), '  # a binding inside the value of a binding
    it0, it1 = [f'for e{s} in (cit{s}, {up})'], [f'for e2{s} in e{s} if (e2{s}, cfr2{s})']
    if pos == 'iter0':
        it0, ch = [f'for e{s} in'] + indent(ch), ['0']
    elif pos == 'iter1':
        it1, ch = [f'for e2{s} in'] + indent(ch) + [f'if (e2{s}, cfr2{s})'], ['0']
    tail = it0 + [f'if cc{s}'] + it1
    if k == 'dictcomp':
        return 'expr', ['{'] + indent([f'ek{s}: (e{s}, {walrus}cfr{s},'] + indent(ch) + [')'] + tail) + ['}']
    o, c = {'listcomp': '[]', 'setcomp': '{}', 'genexp': '()'}[k]
    return 'expr', [o] + indent([f'(e{s}, {walrus}cfr{s},'] + indent(ch) + [')'] + tail) + [c]


def program(kinds, pos='elt'):
    typ, lines = render(kinds, 0, {'fn': None, 'cls_nearest': False, 'pos': pos})
    head = ['modv = 1', 'import modimp']
    if typ == 'stmt':
        return '\n'.join(head + lines + ['tailv = modv'])
    return '\n'.join(head + ['top = ('] + indent(lines) + [')', 'tailv = modv'])


def shapes(kinds, depth):
    for n in range(1, depth + 1):
        for t in itertools.product(kinds, repeat=n):
            ok = True
            for a, b in zip(t, t[1:]):
                if a in EXPR_KINDS and b in STMT_KINDS:
                    ok = False  # a statement scope cannot live inside an expression scope
            if ok:
                yield t


HAND = [
    "x = 1\ndef f():\n    global x\n    x = 2\n    def g():\n        nonlocal_ = x\n        return nonlocal_\n    return g",
    "def f():\n    v = 1\n    def g():\n        nonlocal v\n        v += 1\n        del v\n    return g",
    "def f(a,\n  b=[i for i in range(n)], *, c=(\n  lambda: d)()):\n    return [a for a in b if a.x[y]]",
    "r = [i for i in range(n)]\ns = {k: v for k, v in a.b.items()}\nt = (w for w in\n  [u for u in q])",
    "try:\n    pass\nexcept E as e:\n    e2 = e\nexcept* G as h:\n    pass" if False else "try:\n    pass\nexcept E as e:\n    e2 = e",
    "match s:\n    case {'k': a, **rest}: pass\n    case [b, *more]: pass\n    case P(x=c) as whole: pass\n    case d | d: pass",
    "def f():\n    return [y := x for x in z], (\n  [(w := x,\n    [(v := w) for _ in x]) for x in z])",
    "class C:\n    a = 1\n    b = [a for _ in range(a)]\n    def m(self):\n        return a",
    "import a.b.c\nimport d as e\nfrom f import g, h as i\nfrom j import *" if False else "import a.b.c\nimport d as e\nfrom f import g, h as i",
    "def f():\n    from os import *\n" if False else "def f():\n    for x in y:\n        pass\n    else:\n        x2 = x\n    with a as (b, c), d as e[f]:\n        pass",
    "@d1(lambda: z)\nclass K(B1, k=(\n  lambda q: q)):\n    x: int = 1\n    y: 'str'\n    def f(self, a: int = x) -> y: return a",
    "l = lambda a, /, b, *c, d=e, **f: (a, b, c, d, f, g)\nm = lambda: (yield_ := 1)" if False else "l = lambda a, /, b, *c, d=e, **f: (a, b, c, d, f, g)",
    "def f():\n    a = 1\n    def g():\n        def h():\n            return a\n        return h\n    a += 1\n    return g",
    "def f():\n    x = [\n      lambda: i for i in range(3)]\n    y = {j: (\n      lambda j=j: j) for j in x}\n    return x, y",
    "def f():\n    return [(y := g(z := x)) for x in r], (\n  {x for x in r if (p := (\n    lambda d=(q := x): d))},\n  [(a :=\n    [(b := v) for v in s]) for x in r])",
    # parameter lists continued over lines (the end of the list in every column relation to its start), lambdas continued with a backslash
    "def f(a,\n    bb):\n    return a + bb + c\ndef g(a,\n  b=d):\n    return a\ndef h(\n      ):\n    return e\ndef i(a, *,\n       k=a1):\n    return k",
    "l = lambda a, \\\n         b: a + b + c\nclass K:\n  def m(self,\n    x):\n    return x + y\n  n = lambda s,\\\n  t=u: s",
    "async def f():\n    async with a as b:\n        pass\n    async for c in d:\n        pass\n    return [e async for e in g]",
]


def twin(src):
    """Same program with list/set/dict comprehensions rewritten as generator expressions, line numbers preserved."""
    tree = ast.parse(src)
    lines = src.split('\n')
    edits = []

    def off(ln, col):
        return O.offset_of(lines, ln - 1, O.byte2char(lines[ln - 1], col))
    for n in ast.walk(tree):
        if isinstance(n, (ast.ListComp, ast.SetComp)):
            s, e = off(n.lineno, n.col_offset), off(n.end_lineno, n.end_col_offset)
            edits += [(s, s + 1, '('), (e - 1, e, ')')]
        elif isinstance(n, ast.DictComp):
            s, e = off(n.lineno, n.col_offset), off(n.end_lineno, n.end_col_offset)
            ke = off(n.key.end_lineno, n.key.end_col_offset)
            ve = off(n.value.end_lineno, n.value.end_col_offset)
            colon = src.index(':', ke)
            # value may be parenthesized: close the tuple after its closing parens
            j = ve
            depth_txt = src[colon + 1:off(n.value.lineno, n.value.col_offset)]
            npar = depth_txt.count('(')
            while npar:
                j = src.index(')', j) + 1
                npar -= 1
            edits += [(s, s + 1, '(('), (colon, colon + 1, ','), (j, j, ')'), (e - 1, e, ')')]
    out = src
    for s, e, t in sorted(edits, reverse=True):
        out = out[:s] + t + out[e:]
    return out


def tables(src):
    """{(kind, lineno): symtable} for every scope of the twin program (+ module)."""
    top = symtable.symtable(twin(src), '<c16>', 'exec')
    out = {('module', 0): top}

    def rec(t):
        for c in t.get_children():
            typ = c.get_type()
            kind = {'function': 'function', 'class': 'class'}.get(typ, str(typ))
            key = (kind, c.get_lineno())
            if key in out:
                raise RuntimeError(f'ambiguous scope {key}')
            out[key] = c
            rec(c)
    rec(top)
    return out


def sym_sets(t):
    load, bind, glob, nonl, local, free = set(), set(), set(), set(), set(), set()
    for s in t.get_symbols():
        n = s.get_name()
        if n.startswith('.') or (n.startswith('__') and n.endswith('__')):
            continue
        b = s.is_assigned() or s.is_parameter() or s.is_imported()
        if s.is_referenced():
            load.add(n)
        if b:
            bind.add(n)
        if s.is_declared_global():
            glob.add(n)
        if s.is_nonlocal():
            nonl.add(n)
        if s.is_local():
            local.add(n)
        if s.is_referenced() and not b and not s.is_declared_global() and not s.is_nonlocal():
            free.add(n)
    return {'load': load, 'bind': bind, 'global': glob, 'nonlocal': nonl, 'local': local, 'free': free}


SCOPES = (ast.FunctionDef, ast.AsyncFunctionDef, ast.Lambda, ast.ClassDef, ast.ListComp, ast.SetComp, ast.DictComp,
          ast.GeneratorExp)


def scope_key(node):
    if isinstance(node, ast.Module):
        return ('module', 0)
    if isinstance(node, ast.ClassDef):
        return ('class', node.lineno)
    return ('function', node.lineno)


def comp_walrus_names(scope_a):
    """Names bound by a walrus anywhere inside comprehensions below (or at) this scope node."""
    out = set()

    def inside(n):  # walrus targets below a comprehension, not crossing into lambda bodies (they bind there; the defaults of a
        for m in ast.iter_child_nodes(n):  # lambda are evaluated where the lambda stands: symtable puts their walrus names here)
            if isinstance(m, ast.Lambda):
                inside(m.args)
                continue
            if isinstance(m, ast.NamedExpr) and isinstance(m.target, ast.Name):
                out.add(m.target.id)
            inside(m)

    def rec(n, top):
        for m in ast.iter_child_nodes(n):
            if isinstance(m, (ast.ListComp, ast.SetComp, ast.DictComp, ast.GeneratorExp)):
                inside(m)
            elif isinstance(m, (ast.FunctionDef, ast.AsyncFunctionDef, ast.Lambda, ast.ClassDef)):
                continue  # comprehensions in nested scopes bind there
            else:
                rec(m, False)
    if isinstance(scope_a, (ast.ListComp, ast.SetComp, ast.DictComp, ast.GeneratorExp)):
        inside(scope_a)
    else:
        rec(scope_a, True)
    return out


def aug_only_names(scope_f):
    """Names that appear as AugAssign targets in this scope (pfst documents them as load+store; symtable only binds)."""
    out = set()
    for f in scope_f.walk(True, scope=True):
        a = f.a
        if isinstance(a, ast.AugAssign) and isinstance(a.target, ast.Name):
            out.add(a.target.id)
    return out


def check_program(fst, src, cidp, res, rep):
    try:
        tabs = tables(src)
    except SyntaxError as e:
        res.outcomes['program-rejected-by-compiler'] += 1
        return
    root = fst.FST(src, 'exec')
    scopes = [root] + [f for f in root.walk(True) if isinstance(f.a, SCOPES)]
    for sf in scopes:
        key = scope_key(sf.a)
        t = tabs.get(key)
        if t is None:
            res.fail(cidp + f'{key}', 'harness-scope-not-matched', f'src={src!r}', {}, rep)
            continue
        want = sym_sets(t)
        res.evals += 1
        res.transitions += 1
        res.state(src, key)
        cid = f'{cidp}{sf.a.__class__.__name__}@{key[1]}'
        try:
            got = sf.scope_symbols(full=True)
            simple = sf.scope_symbols()
        except Exception as e:  # noqa: BLE001
            res.fail(cid, 'scope_symbols-raised:' + e.__class__.__name__, f'src={src!r}\n{e!r}', {}, rep)
            continue
        res.traces += 1
        aug = aug_only_names(sf)
        g = {k: set(v) for k, v in got.items()}
        is_comp = isinstance(sf.a, (ast.ListComp, ast.SetComp, ast.DictComp, ast.GeneratorExp))
        wal = comp_walrus_names(sf.a)
        if isinstance(sf.a, ast.Module):
            # CPython artefacts of the module table: names declared global in inner scopes carry DEF_GLOBAL here, and walrus
            # targets of module-level comprehensions are recorded as declared-global instead of assigned
            want = dict(want)
            want['bind'] = want['bind'] | (wal & want['global'])
            want['local'] = want['local'] | (wal & want['global'])
            want['global'] = set()
        if is_comp:
            # walrus targets inside a comprehension belong to the enclosing scope: symtable flags them nonlocal/global in the
            # comprehension table, pfst (explicit declarations only) lists them as implicitly non-local: unjudged here, judged in
            # the enclosing function/module/class scope where they must be bound
            want = {k: v - wal for k, v in want.items()}
            g = {k: v - wal for k, v in g.items()}
        problems = []
        gl = g['load'] - (aug - want['load'])
        if gl != want['load']:
            problems.append(('load', sorted(gl - want['load']), sorted(want['load'] - gl)))
        gb = g['store'] | g['del']
        if gb != want['bind']:
            problems.append(('store+del', sorted(gb - want['bind']), sorted(want['bind'] - gb)))
        if g['global'] != want['global'] and not isinstance(sf.a, ast.Module):  # CPython flags module symbols with DEF_GLOBAL when any inner scope declares them
            problems.append(('global', sorted(g['global'] - want['global']), sorted(want['global'] - g['global'])))
        if g['nonlocal'] != want['nonlocal']:
            problems.append(('nonlocal', sorted(g['nonlocal'] - want['nonlocal']), sorted(want['nonlocal'] - g['nonlocal'])))
        wl = want['local'] - (g['del'] - g['store'])  # pfst documents 'local' as store-only
        if isinstance(sf.a, ast.Module):
            wl = set(want['bind']) - (g['del'] - g['store'])
        if g['local'] != wl and not is_comp:
            problems.append(('local', sorted(g['local'] - wl), sorted(wl - g['local'])))
        gf = g['free'] - (aug - want['load'])
        if gf != want['free']:
            problems.append(('free', sorted(gf - want['free']), sorted(want['free'] - gf)))
        allnames = set(simple)
        wantall = want['load'] | want['bind'] | want['global'] | want['nonlocal']
        if is_comp:
            allnames -= wal
        if allnames - aug != wantall - aug and not problems:
            problems.append(('all', sorted(allnames - wantall), sorted(wantall - allnames)))
        if problems:
            cats = ','.join(p[0] for p in problems)
            extra_missing = '; '.join(f'{c}: extra={x} missing={m}' for c, x, m in problems)
            missing_kinds = sorted({_kind_of(n) for c, x, m in problems for n in m})
            res.fail(cid, 'symbols-differ-from-symtable:' + cats, f'src=\n{src}\nscope={key}\n{extra_missing}',
                     {'missing_kinds': ','.join(missing_kinds), 'scope_kind': sf.a.__class__.__name__,
                      'extra': ','.join(sorted({_kind_of(n) for c, x, m in problems for n in x}))}, rep)
            continue
        # scope walk: every Name/arg node it yields must carry a name of this scope's table, and every symbol of the table
        # that is bound/used through a Name in this scope must be yielded
        names_walked = set()
        for f in sf.walk(True, scope=True):
            a = f.a
            if isinstance(a, ast.Name):
                names_walked.add(a.id)
        stray = names_walked - (want['load'] | want['bind'] | want['global'] | want['nonlocal'] | aug | (wal if is_comp else set()))
        if stray:
            res.fail(cid + '/walk', 'scope-walk-yields-names-of-other-scopes', f'src=\n{src}\nscope={key} stray={sorted(stray)}', {}, rep)
            continue
        if len(wantall) >= 3:
            res.nontriv(src, key)
        res.outcomes['scope-ok'] += 1


def _kind_of(name):
    import re
    return re.sub(r'\d+_?$', '', name)


def shards(tier):
    kinds = ('def', 'asyncdef', 'class', 'classkw', 'lambda', 'lambda0', 'listcomp', 'setcomp', 'genexp', 'dictcomp')
    sh = list(shapes(kinds, 4 if tier == 'quick' else 5))
    out = [{'shapes': [list(s) for s in sh[i:i + 8]]} for i in range(0, len(sh), 8)]
    comps = ('listcomp', 'genexp', 'setcomp', 'dictcomp')
    shp = [s for s in sh if any(a in comps for a in s[:-1])]  # a comprehension with a nested expression scope
    for pos in ('iter0', 'iter1'):
        out += [{'shapes': [list(s) for s in shp[i:i + 8]], 'pos': pos} for i in range(0, len(shp), 8)]
    out.append({'hand': True})
    return out


def run_shard(desc, tier, res):
    import fst
    if desc.get('hand'):
        for i, src in enumerate(HAND):
            check_program(fst, src, f'C16/hand{i}/', res, {'hand': i})
        return
    pos = desc.get('pos', 'elt')
    for kinds in desc['shapes']:
        src = program(tuple(kinds), pos)
        check_program(fst, src, 'C16/' + '>'.join(kinds) + ('' if pos == 'elt' else '@' + pos) + '/', res, {'kinds': kinds, 'pos': pos})
    res.sample({'shape': desc['shapes'][0], 'pos': pos, 'program': program(tuple(desc['shapes'][0]), pos)[:400]})


def replay(rep, res):
    import fst
    if 'hand' in rep:
        check_program(fst, HAND[rep['hand']], 'replay/', res, rep)
    else:
        src = program(tuple(rep['kinds']), rep.get('pos', 'elt'))
        print(src)
        check_program(fst, src, 'replay/', res, rep)
