"""C20 - options and edits are isolated per call, per block and per thread.

(1) explicit-state bfs over the option protocol (set_options / options() enter, exit, exit-by-exception / invalid requests /
    per-call options) against a stack-of-dicts reference model, with behavioural probes;
(2) stateless exploration of thread interleavings of the real code under a controlled scheduler with iterative
    preemption bounding; every thread's observations must equal its solo run;
(3) operation-granularity interleavings of edit scripts on different trees in one thread."""
from __future__ import annotations

import ast

import itertools

from .. import sched as S
from ..core import h64

ID = 'C20'
LEVEL = 'model_checking'
TECHNIQUE = ('explicit-state bfs of the option protocol against a reference model; stateless model checking of real threads '
             'under a controlled scheduler (sys.settrace schedule points at every pfst function call / line, iterative '
             'preemption bounding); exhaustive op-level interleavings of edit scripts on separate trees')
LEVEL_TEXT = ('all option-protocol histories up to depth 3-4 over 7 options (deeper over 2) are executed on the real option store and compared with '
              'a stack-of-dicts model and with behavioural probes; all schedules of 2-3 real threads with at most 1 preemption at '
              'every pfst call (quick) / line (thorough) and 2 preemptions inside option/registry functions are executed; all '
              '20 interleavings of two 3-edit scripts; every ordered pair of 12 option-less calls in fresh interpreters')
LEVEL_NOTE = ('schedule points at Python function-call / line granularity inside src/fst (switches between two bytecodes of one line '
              'are not modelled); every failing schedule is replayed a second time before it is reported; shared-state inventory '
              'is recomputed on every run')
RULE = ('states = distinct (option store, context stack) protocol states + distinct schedules; transitions = protocol operations + '
        'schedule points executed; traces = executions compared with the reference model / the solo run; non-trivial = distinct '
        'protocol states with a non-default store or schedules with >= 1 preemption')
ASSUMPTIONS = ['each thread edits its own tree', 'PYTHONHASHSEED fixed, no clocks, no I/O']
BOUNDS = {'quick': 'protocol depth 3 over the full alphabet (every value of 7 options incl. the defaults and values that compare equal across types, bad requests, calls) + depth 4 over two options; 3 two-thread scenarios: every schedule with <= 1 preemption at every '
                   'pfst function call + every schedule with <= 2 preemptions inside option-store/registry functions; 3-thread '
                   'scenario: all thread orders + <= 1 preemption inside those functions; all 20 op-level interleavings',
          'thorough': 'protocol depth 4 (full alphabet) and 6 (two options); line-level schedule points with <= 1 preemption for all 4 scenarios; 3-thread scenario with <= 1 '
                      'preemption at every call; <= 3 preemptions inside option-store/registry functions'}

# ---------------------------------------------------------------------------------------------------------------------
# (1) option protocol

OPTS = {'pars': ['auto', False, True], 'trivia': [True, 1, False, 0],  # trivia: True == 1 and False == 0 mean different things
        'norm': [False, True], 'docstr': [True, False],
        'raw': [False, 'auto'], 'pep8space': [True, 1, False], 'args_as': [None, 'pos']}  # pep8space: 1 == True compare equal and mean different things
BAD = [('nosuchoption', 1), ('pars', 'maybe'), ('trivia', 'bogus'), ('docstr', 3), ('to', None)]
DOCSRC = 'class C:\n    def f(self):\n        """doc\n        more"""\n        return 1'


def defaults(fst):
    import fst.fst_options as fo
    return dict(fo._GLOBAL_OPTIONS_W_DEFAULTS)


def probe(fst, persist, explicit=None):
    """Behaviour that depends on the effective options. With explicit={...} the options are passed per call (reference)."""
    FST = fst.FST
    kw = explicit or {}
    out = []
    f = FST('i * j', 'exec')
    f.body[0].value.right.replace('x + y', **({'pars': kw['pars']} if 'pars' in kw else {}))
    out.append(f.src)
    f = FST('# l0\n# l1\n\n# c\nx\ny', 'exec')  # True: the comment block above, 1: everything from line 1, 0: from line 0, False: nothing
    f.body[0].remove(**({'trivia': kw['trivia']} if 'trivia' in kw else {}))
    out.append(f.src)
    f = FST('s = {a}', 'exec')
    f.body[0].value.elts[0].remove(**({'norm': kw['norm']} if 'norm' in kw else {}))
    out.append(f.src)
    f = FST('v = [a, b]', 'exec')
    try:
        f.body[0].value.elts[0].replace('c:d', **({'raw': kw['raw']} if 'raw' in kw else {}))
        out.append(f.src)
    except Exception as e:  # noqa: BLE001
        out.append('EXC:' + e.__class__.__name__)
    f = FST('x = 1', 'exec')
    f.body.append('def g(): pass', **({'pep8space': kw['pep8space']} if 'pep8space' in kw else {}))
    out.append(f.src)
    f = FST('def f(a, *b, c=1, **d): pass', 'exec')  # an impossible conversion must be refused before anything is cut, however the option arrives
    try:
        f.body[0].args.get_slice(0, 3, '_all', cut=True, **({'args_as': kw['args_as']} if 'args_as' in kw else {}))
        out.append(f.src)
    except Exception as e:  # noqa: BLE001
        out.append('EXC:' + e.__class__.__name__ + ':' + f.src)
    node = persist.body[0].body[0]
    out.append(node.own_src(**({'docstr': kw['docstr']} if 'docstr' in kw else {})))
    return tuple(out)


_EXPECT = {}


def expected_probe(fst, eff):
    key = tuple(sorted(((k, repr(v)) for k, v in eff.items()), key=lambda x: x[0]))  # repr: True and 1 are different option values
    if key not in _EXPECT:
        FST = fst.FST
        saved = FST.get_options()
        FST.set_options(**defaults(fst))
        try:
            _EXPECT[key] = probe(fst, FST(DOCSRC, 'exec'), explicit=eff)
        finally:
            FST.set_options(**saved)
    return _EXPECT[key]


def protocol_ops(sub=None):
    ops = []
    for k, vs in OPTS.items():
        if sub and k not in sub:
            continue
        for v in vs:  # the default value too: a block / set_options call may name an option with the value it already has
            ops.append(('set', {k: v}))
            ops.append(('enter', {k: v}))
    if sub:  # deeper histories over a sub-alphabet: value changes and block exits only
        return ops + [('exit', None), ('exit-exc', None)]
    ops.append(('set', {'pars': False, 'norm': True}))
    ops.append(('enter', {'trivia': False, 'docstr': False}))
    for k, v in BAD:
        ops.append(('set-bad', {k: v}))
        ops.append(('set-bad', {'pars': True, k: v}))     # valid + bad: must change nothing
        ops.append(('set-bad', {k: v, 'norm': True}))
        ops.append(('enter-bad', {'norm': True, k: v}))
    ops += [('exit', None), ('exit-exc', None), ('call', {'pars': False}), ('call', {'trivia': False, 'norm': True}),
            ('reset-own', None)]
    return ops


def _exact(d):
    """options compared with their types (True and 1 are different option values)"""
    return {k: (type(v).__name__, v) for k, v in d.items()}


class Model:
    def __init__(self, dflt):
        self.cur = dict(dflt)
        self.stack = []

    def apply(self, op, arg):
        if op == 'set':
            self.cur.update(arg)
        elif op == 'enter':
            self.stack.append({k: self.cur[k] for k in arg})
            self.cur.update(arg)
        elif op in ('exit', 'exit-exc'):
            self.cur.update(self.stack.pop())

    def enabled(self, op):
        return bool(self.stack) if op in ('exit', 'exit-exc') else True

    def key(self):
        return (tuple(sorted((k, repr(v)) for k, v in self.cur.items() if k in OPTS)),
                tuple(tuple(sorted((k, repr(v)) for k, v in d.items())) for d in self.stack))


def run_history(fst, hist, res, cid):
    """Replay a protocol history on the real option store next to the model; check after every step."""
    FST = fst.FST
    dflt = defaults(fst)
    FST.set_options(**dflt)  # every history starts from the defaults
    model = Model(dflt)
    ctxs = []
    persist = FST(DOCSRC, 'exec')
    rep = {'hist': hist}

    def bad(sym, detail):
        res.fail(cid, sym, f'history={hist}\n{detail}', {'last': hist[-1][0]}, rep)

    try:
        for step, (op, arg) in enumerate(hist):
            res.transitions += 1
            before = FST.get_options()
            if op == 'set':
                old = FST.set_options(**arg)
                if _exact(old) != _exact({k: before[k] for k in arg}):
                    return bad('set_options-returned-wrong-old-values', f'old={old}')
            elif op == 'enter':
                cm = FST.options(**arg)
                cm.__enter__()
                ctxs.append(cm)
            elif op in ('set-bad', 'enter-bad'):
                try:
                    if op == 'set-bad':
                        FST.set_options(**arg)
                    else:
                        cm = FST.options(**arg)
                        cm.__enter__()
                        ctxs.append(cm)
                    return bad('invalid-option-request-accepted', f'request={arg}')
                except ValueError:
                    pass
                if _exact(FST.get_options()) != _exact(before):
                    return bad('rejected-option-request-changed-options', f'request={arg}\nbefore={before}\nafter={FST.get_options()}')
            elif op == 'exit':
                ctxs.pop().__exit__(None, None, None)
            elif op == 'exit-exc':
                e = RuntimeError('block failed')
                try:
                    r = ctxs.pop().__exit__(RuntimeError, e, None)
                except RuntimeError:
                    r = False
                if r:
                    return bad('options-context-swallowed-exception', '')
            elif op == 'call':
                got = probe(fst, FST(DOCSRC, 'exec'), explicit=arg)
                eff = {k: model.cur[k] for k in OPTS}
                eff.update(arg)
                if got != expected_probe(fst, eff):
                    return bad('per-call-option-not-applied', f'call options={arg}\ngot={got}\nwant={expected_probe(fst, eff)}')
                if _exact(FST.get_options()) != _exact(before):
                    return bad('per-call-option-leaked-into-defaults', f'call options={arg}\nafter={FST.get_options()}')
            elif op == 'reset-own':
                pass
            model.apply(op, arg)
            now = FST.get_options()
            if _exact(now) != _exact(model.cur):
                diff = {k: (now.get(k), model.cur.get(k)) for k in set(now) | set(model.cur) if _exact({0: now.get(k)}) != _exact({0: model.cur.get(k)})}
                return bad('options-differ-from-model', f'step {step} {op} {arg}: (got, want) {diff}')
            res.traces += 1
            eff = {k: model.cur[k] for k in OPTS}
            got = probe(fst, persist)
            want = expected_probe(fst, eff)
            if got != want:
                return bad('behaviour-differs-from-effective-options', f'step {step} {op} {arg}\neffective={eff}\ngot={got}\nwant={want}')
        return model
    finally:
        while ctxs:
            try:
                ctxs.pop().__exit__(None, None, None)
            except Exception:  # noqa: BLE001
                pass
        FST.set_options(**dflt)


def protocol_bfs(fst, depth, part, res, sub=None):
    ops = protocol_ops(sub)
    r, M = part
    seen = {Model(defaults(fst)).key()}
    frontier = [[]]
    for d in range(depth):
        nxt = []
        for hi, hist in enumerate(frontier):
            m0 = Model(defaults(fst))
            for op, arg in hist:
                m0.apply(op, arg)
            for oi, (op, arg) in enumerate(ops):
                if not m0.enabled(op):
                    continue
                mine = (hi * len(ops) + oi) % M == r
                h2 = hist + [(op, arg)]
                m = Model(defaults(fst))
                for o, a in h2:
                    m.apply(o, a)
                k = m.key()
                if mine:
                    res.evals += 1
                    cid = 'C20/proto/' + '|'.join(f'{o}{"" if a is None else a}' for o, a in h2)
                    out = run_history(fst, h2, res, cid)
                    if out is not None and k != seen.__class__() and any(v != defaults(fst)[kk] for kk, v in m.cur.items()):
                        res.nontriv('proto', k)
                res.states.add(h64('proto', k))
                if k not in seen and op in ('set', 'enter', 'exit', 'exit-exc'):
                    seen.add(k)
                    nxt.append(h2)
        frontier = nxt
    res.sample({'protocol_depth': depth, 'ops': len(ops), 'states': len(seen)})


# ---------------------------------------------------------------------------------------------------------------------
# (2) threads

def scenario(fst, name):
    """Fresh thread bodies (fresh trees) for one execution. Each body appends observations to its list."""
    FST = fst.FST
    keys = ('pars', 'trivia', 'norm', 'docstr', 'raw')

    def snap():
        o = FST.get_options()
        return tuple((k, o[k]) for k in keys)

    def t_block(obs):  # inside a with options(pars=False) block
        f = FST('r = i * j\ns = [a]', 'exec')
        obs.append(('opts0', snap()))
        with FST.options(pars=False, norm=True):
            f.body[0].value.right.replace('x + y')
            obs.append(('e1', f.src, snap()))
            f.body[1].value.elts[0].replace('p if q else r')
            obs.append(('e2', f.src))
        obs.append(('opts1', snap()))
        f.body[0].value.left.replace('u + v')
        obs.append(('e3', f.src))

    def t_default(obs):  # on defaults
        f = FST('k = m * n\n# c\nt = {z}\nw', 'exec')
        f.body[0].value.right.replace('x + y')
        obs.append(('e1', f.src, snap()))
        f.body[1].value.elts[0].remove(norm=True)
        obs.append(('e2', f.src))
        f.body[1].remove()
        obs.append(('e3', f.src, snap()))

    def t_set(obs):  # changes its own defaults
        f = FST('# lead\nx = 1\ny = (a)', 'exec')
        old = FST.set_options(trivia=False, pars=True)
        obs.append(('old', tuple(sorted(old.items())), snap()))
        f.body[0].remove()
        obs.append(('e1', f.src))
        try:
            FST.set_options(norm=True, nosuch=1)
        except ValueError:
            obs.append(('rejected', snap()))
        f.body[0].value.replace('b + c')
        obs.append(('e2', f.src, snap()))

    def t_exc(obs):  # block exits by exception
        f = FST('q = i * j', 'exec')
        try:
            with FST.options(pars=False, trivia=False):
                f.body[0].value.right.replace('x + y')
                obs.append(('e1', f.src))
                f.body[0].value.right.replace('a +')  # SyntaxError
        except SyntaxError:
            obs.append(('caught', snap()))
        f.body[0].value.left.replace('x + y')
        obs.append(('e2', f.src))

    # options taken from a block / from set_options / from the defaults must act exactly like the same options passed per call;
    # judged inside each thread (so it is meaningful for the solo run too, which also runs in a non-main thread)
    def t_cblock(obs):
        with FST.options(pars=False, norm=True):
            g, h = FST('t = {z}', 'exec'), FST('t = {z}', 'exec')
            g.body[0].value.elts[0].remove()
            h.body[0].value.elts[0].remove(norm=True, pars=False)
            obs.append(('block==call', g.src == h.src, g.src, h.src))

    def t_cset(obs):
        FST.set_options(norm=True, pars_arglike=False)
        g, h = FST('t = {z}\nf(*not a)', 'exec'), FST('t = {z}\nf(*not a)', 'exec')
        g.body[0].value.elts[0].remove()
        h.body[0].value.elts[0].remove(norm=True)
        c1 = g.body[1].value.args[0].copy()
        c2 = h.body[1].value.args[0].copy(pars_arglike=False)
        obs.append(('set==call', (g.src, c1.src) == (h.src, c2.src), g.src, h.src, c1.src, c2.src))

    def t_cdefault(obs):
        g, h = FST('t = {z}', 'exec'), FST('t = {z}', 'exec')
        g.body[0].value.elts[0].remove()
        h.body[0].value.elts[0].remove(norm=False)
        obs.append(('default==call', g.src == h.src, g.src, h.src))

    table = {
        'consistency': [t_cblock, t_cset, t_cdefault],
        'block+default': [t_block, t_default],
        'set+exc': [t_set, t_exc],
        'block+set+default': [t_block, t_set, t_default],
        'exc+default': [t_exc, t_default],
    }
    return table[name]


def inconsistent(all_obs):
    """observations (tag '...==call', bool, ...) that are not True"""
    return [o for obs in all_obs for o in obs if isinstance(o, tuple) and len(o) > 1 and isinstance(o[0], str) and o[0].endswith('==call')
            and o[1] is not True]


def solo(fst, name):
    out = []
    import threading
    for body in scenario(fst, name):
        obs = []
        th = threading.Thread(target=body, args=(obs,))  # a fresh thread: fresh thread-local option defaults
        th.start()
        th.join()
        out.append(obs)
    return out


SHARED_FUNCS = ('set_options', 'options', 'get_options', 'get_option', 'check_options', 'enter', 'success', 'fail',
                '_modifying', '_ThreadOptions')


def run_sched(fst, name, bound, gran, part, res, restricted=False):
    FST = fst.FST
    want = solo(fst, name)
    if inconsistent(want) and (part is None or part[0] == 0):
        res.fail(f'C20/sched/{name}/solo', 'thread-level-options-differ-from-per-call-options', f'{inconsistent(want)}', {'scenario': name},
                 {'scenario': name, 'gran': gran, 'choices': []})
    main_before = FST.get_options()
    n = {'exec': 0}

    def check(x, prefix):
        n['exec'] += 1
        npre = S.preemptions(x.points, x.choices)
        first = part is None or part[0] == 0 or prefix
        if first:
            res.evals += 1
            res.transitions += len(x.points)
            res.traces += 1
            res.states.add(h64('sched', name, gran, tuple(x.choices)))
        cid = f'C20/sched/{name}/{gran}/' + ''.join(map(str, _rle(x.choices)))
        rep = {'scenario': name, 'gran': gran, 'choices': x.choices}
        if x.failed:
            res.fail(cid, 'schedule-' + x.failed.split(':')[0].replace(' ', '-'), f'{x.failed}\npoints={len(x.points)}', {}, rep)
            return
        if x.obs != want:
            # replay the same schedule once more before trusting the failure
            y = S.Execution(scenario(fst, name), x.choices, gran).run()
            if y.obs != x.obs or y.failed:
                res.fail(cid, 'harness-nondeterminism', f'same schedule gave different observations\n1={x.obs}\n2={y.obs}', {}, rep)
                return
            bad_t = [t for t in range(len(want)) if x.obs[t] != want[t]]
            i = next(k for k, (cur, en, wh) in enumerate(x.points) if cur is not None and x.choices[k] != cur) if npre else 0
            res.fail(cid, 'thread-result-differs-from-solo-run',
                     f'scenario={name} preemptions={npre} first preemption at point {i} {x.points[i][2] if x.points else ""}\n'
                     f'thread(s) {bad_t}:\n got={[x.obs[t] for t in bad_t]}\nwant={[want[t] for t in bad_t]}', {'scenario': name}, rep)
            return
        from ..fstnav import registry_leftover
        if registry_leftover():
            res.fail(cid, 'modification-registry-not-empty-at-quiescence', '', {}, rep)
            return
        if FST.get_options() != main_before:
            res.fail(cid, 'main-thread-options-changed-by-other-threads', f'{FST.get_options()}', {}, rep)
            return
        if npre and first:
            res.nontriv('sched', name, gran, tuple(x.choices))

    stats = {}
    S.explore(lambda: scenario(fst, name), bound, check, gran, only_first=part,
              where_filter=(lambda wh: wh[0] in SHARED_FUNCS) if restricted else None, stats=stats)
    res.extra['schedule_points_max'] = stats.get('points', 0)
    res.extra.setdefault('schedules', 0)
    res.extra['schedules'] += n['exec']
    res.sample({'scenario': name, 'granularity': gran, 'preemption_bound': bound, 'points': stats.get('points'),
                'schedules': n['exec']})


def _rle(xs):
    out = []
    for k, g in itertools.groupby(xs):
        m = len(list(g))
        out.append(f'{k}x{m}.' if m > 1 else f'{k}.')
    return out


# ---------------------------------------------------------------------------------------------------------------------
# (3) op-level interleavings of edit scripts on separate trees, one thread

def run_oplevel(fst, res):
    FST = fst.FST
    A = ['i * j', lambda f: f.body[0].value.right.replace('x + y'), lambda f: f.body[0].value.left.replace('a, b'),
         lambda f: f.body.append('z = 1')]
    B = ['# c\nu = {v}\nw', lambda f: f.body[0].value.elts[0].remove(norm=True), lambda f: f.body[0].remove(trivia=False),
         lambda f: f.body.append('def g(): pass')]

    def run(order):
        fa, fb = FST(A[0], 'exec'), FST(B[0], 'exec')
        ia = ib = 1
        oa, ob = [], []
        for who in order:
            if who == 'a':
                A[ia](fa)
                oa.append(fa.src)
                ia += 1
            else:
                B[ib](fb)
                ob.append(fb.src)
                ib += 1
        return oa, ob

    want = run('aaabbb')
    for order in sorted(set(itertools.permutations('aaabbb'))):
        res.evals += 1
        res.transitions += 6
        res.traces += 1
        res.states.add(h64('oplevel', order))
        got = run(order)
        if got != want:
            res.fail('C20/oplevel/' + ''.join(order), 'interleaved-edits-on-separate-trees-differ-from-sequential',
                     f'got={got}\nwant={want}', {}, {'order': ''.join(order)})
        else:
            res.nontriv('oplevel', order)


# ---------------------------------------------------------------------------------------------------------------------
# shared-state inventory

def inventory(fst, res):
    """Globals of fst.* modules that any function rebinds (STORE_GLOBAL), and module-level containers whose fingerprint
    changes during a solo run of the thread scenarios. Expected: the thread-local option store and _MODIFYING."""
    import dis
    import sys
    import types
    rebinds = set()
    for mname, mod in list(sys.modules.items()):
        if not (mname == 'fst' or mname.startswith('fst.')) or mod is None:
            continue
        for v in list(vars(mod).values()):
            fns = []
            if isinstance(v, types.FunctionType) and v.__module__ == mname:
                fns.append(v)
            elif isinstance(v, type) and v.__module__ == mname:
                fns += [m for m in vars(v).values() if isinstance(m, types.FunctionType)]
            for fn in fns:
                try:
                    for ins in dis.get_instructions(fn):
                        if ins.opname in ('STORE_GLOBAL', 'DELETE_GLOBAL'):
                            rebinds.add(f'{mname}.{ins.argval}')
                except Exception:  # noqa: BLE001
                    pass

    def fingerprint():
        fp = {}
        for mname, mod in list(sys.modules.items()):
            if not (mname == 'fst' or mname.startswith('fst.')) or mod is None:
                continue
            for k, v in list(vars(mod).items()):
                if isinstance(v, (dict, list, set, bytearray)) and not k.startswith('__'):
                    try:
                        fp[f'{mname}.{k}'] = (id(v), len(v), hash(tuple(map(id, v))) if len(v) < 2000 else 0)
                    except Exception:  # noqa: BLE001
                        pass
        return fp

    before = fingerprint()
    changed = set()

    def tracer(frame, event, arg):
        if event == 'call' and frame.f_code.co_filename.startswith(os_srcdir):
            now = fingerprint()
            for k in now:
                if before.get(k) != now[k]:
                    changed.add(k)
        return None
    import os
    os_srcdir = os.path.join(os.environ.get('PFSTMC_REPO', '/repo'), 'src', 'fst')
    sys.settrace(tracer)
    try:
        for body in scenario(fst, 'block+set+default'):
            body([])
    finally:
        sys.settrace(None)
        fst.FST.set_options(**defaults(fst))
    res.extra['shared_state_rebound_globals'] = sorted(rebinds)
    res.extra['shared_state_containers_mutated_during_edits'] = sorted(changed)
    expected = {'fst.fst_core._MODIFYING'}
    unexpected = sorted(set(changed) - expected)
    res.extra['shared_state_unexpected'] = unexpected + sorted(rebinds)
    if unexpected or rebinds:
        res.outcomes['unowned-shared-state-listed'] += 1


def run_option_values(fst, res):
    """Option *values* that are mutable objects (the extra operator `op` as a list of lines or as an FST; code passed as a list):
    an edit must not modify them, neither the caller's object nor the stored default, and repeating the same call must give the
    same result. Exhaustive over value form x way the option is supplied x side x 3 repetitions."""
    FST = fst.FST
    forms = {
        'str': lambda: '<', 'list': lambda: ['<'], 'list2': lambda: [' <'], 'fst': lambda: FST('<', 'cmpop'),
        'ast': lambda: ast.Lt(), 'type': lambda: ast.Lt,
    }

    def snap(v):
        if isinstance(v, list):
            return ('list', tuple(v))
        if isinstance(v, FST):
            return ('fst', v.src, ast.dump(v.a) if v.a is not None else None)
        if isinstance(v, ast.AST):
            return ('ast', ast.dump(v))
        return ('val', repr(v))

    base = FST.get_options()
    for fname, mk in forms.items():
        for how in ('call', 'block', 'set'):
            for side in ('left', 'right'):
                for src, start in (('a == b == c', 1), ('a is b', 1), ('a < b', 2)):
                    cid = f'C20/optval/op={fname}/{how}/{side}/{src!r}@{start}'
                    rep = {'optval': [fname, how, side, src, start]}
                    res.evals += 1
                    op = mk()
                    before = snap(op)
                    outs = []
                    try:
                        for _ in range(3):
                            f = FST(src, 'expr')
                            res.transitions += 1
                            if how == 'call':
                                f.put_slice('x', start, start, op=op, op_side=side)
                            elif how == 'block':
                                with FST.options(op=op, op_side=side):
                                    f.put_slice('x', start, start)
                                    stored = snap(FST.get_option('op'))
                                    if stored != before:
                                        res.fail(cid, 'stored-option-value-modified-by-edit', f'{stored} != {before}', {}, rep)
                            else:
                                old = FST.set_options(op=op, op_side=side)
                                try:
                                    f.put_slice('x', start, start)
                                    stored = snap(FST.get_option('op'))
                                finally:
                                    FST.set_options(**old)
                                if stored != before:
                                    res.fail(cid, 'stored-option-value-modified-by-edit', f'{stored} != {before}', {}, rep)
                            outs.append(f.src)
                    except Exception as e:  # noqa: BLE001
                        outs.append('EXC:' + e.__class__.__name__)
                        FST.set_options(**base)
                    res.traces += 1
                    if snap(op) != before:
                        res.fail(cid, 'option-value-object-modified-by-edit', f'before={before} after={snap(op)} results={outs}', {}, rep)
                    elif len(set(outs)) != 1:
                        res.fail(cid, 'same-call-different-result', f'{outs}', {}, rep)
                    else:
                        res.nontriv('optval', fname, how, side, src)
                    if FST.get_options() != base:
                        res.fail(cid, 'options-not-restored', '', {}, rep)
                        FST.set_options(**base)
    # code given as a list of lines must not be modified either
    for src, code in (('[a, b]', ['x,', ' y']), ('f(a)', ['k=v']), ('if a: pass', ['b = 1', 'c = 2'])):
        cid = f'C20/optval/code-lines/{src!r}'
        res.evals += 1
        lines = list(code)
        outs = []
        for _ in range(2):
            f = FST(src, 'exec')
            n = f.body[0].value if hasattr(f.body[0], 'value') else f.body[0]
            fld = 'elts' if src.startswith('[') else 'keywords' if src.startswith('f(') else 'body'
            try:
                n.put_slice(lines, 0, 0, fld)
                outs.append(f.src)
            except Exception as e:  # noqa: BLE001
                outs.append('EXC:' + e.__class__.__name__)
        res.traces += 1
        if lines != code or len(set(outs)) != 1:
            res.fail(cid, 'code-lines-modified-by-edit', f'{lines} results={outs}', {}, {'optval': ['code', src]})
    for src, code, path, field in (('l = lambda: 0', ['x'], 'value', 'args'), ('l = lambda: 0', ['x, ', 'y'], 'value', 'args'),
                                   ('v = [a, b]', ['c,', ' d'], 'value', None), ('if a: pass', ['b'], None, 'test')):
        for raw in (True, 'auto', False):  # raw mode splices the lines into the source itself
            cid = f'C20/optval/code-lines-raw/{src!r}/{code!r}/raw={raw}'
            res.evals += 1
            lines = list(code)
            f = FST(src, 'exec')
            n = getattr(f.body[0], path) if path else f.body[0]
            try:
                if field:
                    n.put(lines, field=field, raw=raw)
                else:
                    n.put_slice(lines, 0, 1, raw=raw)
            except Exception:  # noqa: BLE001
                pass
            res.traces += 1
            if lines != code:
                res.fail(cid, 'code-lines-modified-by-edit', f'{lines} (passed {code}) result={f.src!r}', {}, {'optval': ['code-raw', src]})


def run_option_dicts(fst, res):
    """Option *dicts* handed to a call (sub/subn copy_options / repl_options, FST.options(**d), per-call **d) belong to the caller:
    the call must not write into them, and a dict that was accepted once is validated again the next time."""
    import fst.match as M
    FST = fst.FST
    goods = [{'pars': True}, {'trivia': False, 'pep8space': False}, {}]
    for gi, good in enumerate(goods):
        for which in ('copy_options', 'repl_options', 'both'):
            cid = f'C20/optdict/sub/{gi}/{which}'
            rep = {'optval': ['dict', gi, which]}
            res.evals += 1
            d = dict(good)
            kw = {'copy_options': d} if which == 'copy_options' else {'repl_options': d} if which == 'repl_options' else {'copy_options': d, 'repl_options': d}
            outs = []
            for _ in range(2):
                f = FST('x = a + b\ny = c', 'exec')
                res.transitions += 1
                try:
                    f.sub(M.MName('a'), 'log(__FST_)', **kw)
                    outs.append(f.src)
                except Exception as e:  # noqa: BLE001
                    outs.append('EXC:' + e.__class__.__name__)
                if d != good:
                    res.fail(cid, 'caller-option-dict-modified-by-call', f'{d} != {good}', {}, rep)
                    break
            else:
                res.traces += 1
                if len(set(outs)) != 1:
                    res.fail(cid, 'same-call-different-result', f'{outs}', {}, rep)
                    continue
                # the same dict, now with an invalid value: has to be refused although the dict was accepted before
                d['trivia'] = 'bogus'
                f = FST('x = a + b', 'exec')
                try:
                    f.sub(M.MName('a'), 'log(__FST_)', **kw)
                    res.fail(cid, 'invalid-option-accepted-in-reused-dict', f'{d} result={f.src!r}', {}, rep)
                except Exception:  # noqa: BLE001
                    res.nontriv('optdict', gi, which)
                d.pop('trivia')
                try:  # and the dict is still a plain options dict for every other entry point
                    with FST.options(**d):
                        pass
                    FST('a', 'exec').body[0].value.replace('b', **d)
                except Exception as e:  # noqa: BLE001
                    res.fail(cid, 'option-dict-unusable-after-call', f'{d} {e!r}', {}, rep)


# ---------------------------------------------------------------------------------------------------------------------
# (5) calls without options (attribute / item assignment) must not leave anything behind for the next one

CARRY = [  # (source, statement applied to the tree `f`): multi-line and one-line codes into slots with their own option handling
    ("from m import a, b", r"f.body[0].names[0] = 'c as \\\n d'"),
    ("import a, b", r"f.body[0].names[1] = 'c.d as \\\n e'"),
    ("x = a * b", "f.body[0].value.left = 'p + q'"),
    ("x = a * b", "f.body[0].value.right = '(r,\\n s)'"),
    ("with a as b: pass", "f.body[0].items[0] = 'u as (v,\\n w)'"),
    ("f(a, b)", "f.body[0].value.args[0] = 'x := 1'"),
    ("v = [a, b]", "f.body[0].value.elts[1] = 'lambda: (yield)'"),
    ("if a:\n    b  # c\nd", "f.body[0].body[0] = 'e = 1'"),
    ("if a:\n    b  # c\nd", "del f.body[0]"),
    ("def g(a, b=1): pass", "f.body[0].args.args[0] = 'z: int'"),
    ("match s:\n    case [a, b]: pass", "f.body[0].cases[0].pattern.patterns[0] = 'c | d'"),
    ("x = {a: b}", "f.body[0].value.values[0] = 'p if q else r'"),
]
_CARRY_SCRIPT = """
import sys, json
sys.path.insert(0, {src!r})
import fst
from fst import FST
out = []
for k in {seq!r}:
    src, stmt = {carry!r}[k]
    f = FST(src, 'exec')
    try:
        exec(stmt, {{'f': f}})
        out.append(f.src)
    except Exception as e:
        out.append('EXC:' + e.__class__.__name__)
print(json.dumps(out))
"""


def run_carry(fst, first, res):
    """Every ordered pair of option-less calls in a fresh interpreter: the second result must be what the call gives alone."""
    import json
    import os
    import subprocess
    import sys
    repo_src = os.path.join(os.environ.get('PFSTMC_REPO', '/repo'), 'src')

    def run(seq):
        r = subprocess.run([sys.executable, '-X', 'utf8', '-c', _CARRY_SCRIPT.format(src=repo_src, seq=seq, carry=CARRY)],
                           capture_output=True, text=True, timeout=120, env=dict(os.environ, PYTHONHASHSEED='0'))
        if r.returncode:
            raise RuntimeError(r.stderr[-400:])
        return json.loads(r.stdout)
    solo = [run([k])[0] for k in range(len(CARRY))]
    for second in range(len(CARRY)):
        cid = f'C20/carry/{first}->{second}'
        res.evals += 1
        res.transitions += 2
        res.traces += 1
        got = run([first, second])
        if got != [solo[first], solo[second]]:
            res.fail(cid, 'call-without-options-leaves-something-behind-for-the-next-call',
                     f'first: {CARRY[first][1]} on {CARRY[first][0]!r}\nthen: {CARRY[second][1]} on {CARRY[second][0]!r} -> {got[1]!r}\nalone: {solo[second]!r}',
                     {'carry': True}, {'carry': first})
        else:
            res.nontriv('carry', first, second)
            res.outcomes['carry-ok'] += 1


def shards(tier):
    out = [{'kind': 'inventory'}, {'kind': 'oplevel'}, {'kind': 'optval'}]
    out += [{'kind': 'carry', 'first': k} for k in range(len(CARRY))]
    M = 16
    out += [{'kind': 'proto', 'depth': 3 if tier == 'quick' else 4, 'part': [r, M]} for r in range(M)]
    # deeper over two options (one whose values compare equal across types): named-with-its-current-value, changed inside, left
    out += [{'kind': 'proto', 'depth': 4 if tier == 'quick' else 6, 'part': [r, 8], 'sub': ['norm', 'pep8space']} for r in range(8)]
    for name in ('block+default', 'set+exc', 'exc+default') + (('block+set+default',) if tier == 'thorough' else ()):
        for r in range(12):  # every schedule with <= 1 preemption at every pfst function call
            out.append({'kind': 'sched', 'scenario': name, 'bound': 1, 'gran': 'call', 'part': [r, 12]})
    for r in range(2):  # per-call == per-block == per-thread-default, three threads, <= 1 preemption inside option functions
        out.append({'kind': 'sched', 'scenario': 'consistency', 'bound': 1, 'gran': 'call', 'part': [r, 2], 'restricted': True})
    if tier == 'quick':  # three threads: all non-preemptive orders + <= 1 preemption inside option/registry functions
        for r in range(4):
            out.append({'kind': 'sched', 'scenario': 'block+set+default', 'bound': 1, 'gran': 'call', 'part': [r, 4],
                        'restricted': True})
    for name in ('block+default', 'set+exc', 'exc+default'):
        for r in range(8):  # <= 2 (thorough 3) preemptions, all of them inside option-store / modification-registry functions
            out.append({'kind': 'sched', 'scenario': name, 'bound': 2 if tier == 'quick' else 3, 'gran': 'call', 'part': [r, 8],
                        'restricted': True})
    if tier == 'thorough':
        for name in ('block+default', 'set+exc', 'exc+default', 'block+set+default'):
            for r in range(32):
                out.append({'kind': 'sched', 'scenario': name, 'bound': 1, 'gran': 'line', 'part': [r, 32]})
    return out


def run_shard(desc, tier, res):
    import fst
    k = desc['kind']
    if k == 'inventory':
        inventory(fst, res)
    elif k == 'oplevel':
        run_oplevel(fst, res)
    elif k == 'carry':
        run_carry(fst, desc['first'], res)
    elif k == 'optval':
        run_option_values(fst, res)
        run_option_dicts(fst, res)
    elif k == 'proto':
        if desc['part'][0] % 2:  # half of the histories run in a non-main thread (the option store is thread-local: whatever is
            import threading    # bound to the importing thread at import time must not be what other threads read)
            err = []

            def body():
                try:
                    protocol_bfs(fst, desc['depth'], tuple(desc['part']), res, desc.get('sub'))
                except BaseException as e:  # noqa: BLE001
                    err.append(e)
            th = threading.Thread(target=body)
            th.start()
            th.join()
            if err:
                raise err[0]
        else:
            protocol_bfs(fst, desc['depth'], tuple(desc['part']), res, desc.get('sub'))
    else:
        run_sched(fst, desc['scenario'], desc['bound'], desc['gran'], tuple(desc['part']), res, desc.get('restricted', False))


def replay(rep, res):
    import fst
    if 'carry' in rep:
        run_carry(fst, rep['carry'], res)
    elif 'optval' in rep:
        run_option_values(fst, res)
        run_option_dicts(fst, res)
    elif 'hist' in rep:
        run_history(fst, [tuple(x) for x in rep['hist']], res, 'replay')
    elif 'choices' in rep:
        want = solo(fst, rep['scenario'])
        x = S.Execution(scenario(fst, rep['scenario']), rep['choices'], rep['gran']).run()
        for t, (g, w) in enumerate(zip(x.obs, want)):
            print('thread', t, 'OK' if g == w else 'DIFFERS')
            if g != w:
                print('  got ', g)
                print('  want', w)
                res.fail('replay', 'thread-result-differs-from-solo-run', '')
    else:
        run_oplevel(fst, res)
