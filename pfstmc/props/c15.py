"""C15 - walking stays sound while the tree is being modified.

dev engine: deviation-bounded exploration of the generator/consumer interaction. Choice 0 at every yield = the consumer
does nothing; a deviation = one action of the menu (send, replace/remove of the current node, an ancestor, a sibling, an
already/not yet walked cousin, insertions, slice replace). All scripts with <= D deviations are run to completion."""
from __future__ import annotations

import ast

from .. import oracle as O
from ..core import CaseTimeout, deadline
from ..fstnav import live_vs_parse

ID = 'C15'
LEVEL = 'model_checking'
TECHNIQUE = ('deviation-bounded exhaustive exploration (iterative bounding 0,1,2) of consumer actions at every yield of the real '
             'walk()/search() generators, each execution run to completion under a horizon and judged by invariants + a '
             'reference continuation order + C01 on the final tree')
LEVEL_TEXT = ('for 23 tree shapes x 19 walk settings (walks from the root and from inner nodes) every script with <= 1 consumer action (33-action menu at every yield) and, on a '
              'subset, <= 2 actions, plus the script that rewrites every name it meets, is executed on the real generator; nothing is sampled; each execution is checked for '
              'exceptions, termination, liveness/attachment of yielded nodes, duplicates, the documented continuation and C01')
LEVEL_NOTE = ('trusted: CPython ast for the final tree; consumer actions that themselves raise are "not enabled" and do not count; '
              'cut() during a walk is excluded by the documentation')
RULE = ('dev: case = (tree, walk setting, script of (step, action)); non-trivial = distinct scripts whose action was enabled and '
        'changed the tree or the walk; states = distinct (tree, setting, script) executions; traces = executions checked against the '
        'continuation reference')
ASSUMPTIONS = ['yielded nodes are kept referenced (no id reuse)', 'horizon 6 x (initial + inserted nodes) yields']
BOUNDS = {'quick': '23 trees x 19 settings x all 1-action scripts (33 actions) + the rewrite-every-name script; 2-action scripts on 4 trees x 4 settings (reduced 12-action menu); '
                   'send() protocol of walk() (8 parameter settings) and search() (4 patterns x nested x back): every send sequence of a 6-sequence menu at every yield',
          'thorough': '2-action scripts on all trees x 6 settings; 3-action scripts on 2 trees'}

TREES = [
    "x = [a, [b, c], d]",
    "f(a, k=b, *c, **d)",
    "d = {a: b, **c, e: [g, h]}",
    "if a:\n    b\n    c\nelse:\n    d",
    "@dec\ndef f(p, q=r):\n    s = p\n    return s",
    "class C(B, m=M):\n    x = 1\n    def g(self): pass",
    "match s:\n    case [a, b]:\n        c\n    case _:\n        d",
    "for i in j:\n    k = [i for i in i if i]\nelse:\n    l",
    "a = b = c, (d, e)\nf += g",
    "try:\n    a\nexcept E as e:\n    b\nfinally:\n    c",
    "with a as b, c:\n    d; e\ng",
    "x = y if z else (lambda q: q + w)(v)",
    "def f():\n    n = [i := j for j in k]\n    return n",
    "import a, b as c\nfrom d import e\ndel f, g[h]",
    "x = {**a, b: c, **d}\ny = [{**e}]",
    "def f(*, p, q=d): pass\nl = lambda *, r, s=t: r",
    "def g(a, /, b=1, *c, d, e=2, **k):\n    return [a, {1: b, **k}]",
    # scopes inside the first iterable of a comprehension (evaluated in the enclosing scope)
    "def h():\n    return [i for i in [j for j in k] if (lambda: i)]\nz = {a: b for a in (c for c in d)}",
    # two-operand containers that normalisation collapses to the surviving operand when the other one is removed
    "x = a.y or b\nz = c.d < e[0]\nmatch s:\n    case [p, q] | None: pass",
    # containers whose elements live in two parallel lists (pairs), the last pair with children of its own
    "d = {a: b.c, e: [g, h]}\nmatch s:\n    case {1: [p, q], 2: C(r)}: pass\n    case {3: t, **u}: pass",
    # the only handler of a try (replaced by one of the other kind the statement changes class) and elements whose removal takes a
    # dependent neighbour with it (raise X from Y, a handler's type with its name)
    "try:\n    a\nexcept* E as e:\n    b(c)\nelse:\n    d\ng",
    "def f():\n    try:\n        raise L(p) from x.c\n    except (K, V) as k:\n        raise\n    return r",
    # multi-byte names replaced by code of the same byte length and another character length (nothing moves in bytes, everything behind moves in characters)
    "r = [höhe, länge, ü, ß(ä)]; s = ö",
]
for _t in TREES:
    ast.parse(_t)

SETTINGS = [
    dict(on='enter', back=False, all=False), dict(on='enter', back=True, all=False), dict(on='enter', back=False, all=True),
    dict(on='enter', back=True, all=True), dict(on='leave', back=False, all=False), dict(on='leave', back=True, all=False),
    dict(on='leave', back=False, all=True), dict(on='both', back=False, all=False), dict(on='both', back=True, all=False),
    dict(on='both', back=False, all=True), dict(on='enter', back=False, all=False, scope=True),
    dict(on='enter', back=True, all=False, scope=True), dict(on='enter', back=False, all=False, recurse=False),
    # walks started below the root: the consumer can remove the start node itself or its ancestors
    dict(on='leave', back=False, all=True, start='inner'), dict(on='leave', back=True, all=False, start='stmt'),
    dict(on='enter', back=False, all=True, start='inner'), dict(on='both', back=False, all=False, start='stmt'),
    dict(on='both', back=False, all=True, start='inner'), dict(on='leave', back=False, all=False, start='inner'),
]

TARGETS = ('cur', 'parent', 'grand', 'prev', 'next', 'walked', 'future')
OPS = ('replace', 'remove', 'replace-big')
ACTIONS = [('send', False), ('send', True)] + [(op, t) for t in TARGETS for op in OPS] + \
    [('insert-before', 'cur'), ('insert-after', 'cur'), ('replace-slice', 'cur'), ('replace', 'cur-child'), ('replace-scope', 'cur'),
     ('replace-scope', 'next'), ('del-slice', 'cur'), ('del-slice', 'cur-to-end'), ('del-slice', 'after-cur'), ('del-slice', 'before-cur')]
ACTIONS_LITE = [('send', False), ('send', True), ('replace', 'cur'), ('remove', 'cur'), ('replace-big', 'cur'), ('remove', 'parent'),
                ('replace', 'parent'), ('remove', 'next'), ('remove', 'prev'), ('replace', 'walked'), ('remove', 'future'),
                ('insert-before', 'cur')]


def code_for(node, big):
    a = node.a
    if isinstance(a, ast.stmt):
        return 'if q:\n    r\n    u' if big else 'pass'
    if isinstance(a, ast.Name) and not a.id.isascii() and not big:
        return a.id.translate({0xe4: 'ae', 0xf6: 'oe', 0xfc: 'ue', 0xdf: 'ss'})
    if isinstance(a, ast.expr):
        if isinstance(getattr(a, 'ctx', None), (ast.Store, ast.Del)):
            return '[n1, n2]' if big else 'X'
        return '[n1, n2(n3)]' if big else 'X'
    if isinstance(a, ast.pattern):
        return '[p1, p2]' if big else 'P'
    if isinstance(a, ast.arg):
        return 'ar'
    if isinstance(a, ast.keyword):
        return 'kk=vv'
    if isinstance(a, ast.alias):
        return 'al'
    if isinstance(a, ast.withitem):
        return 'wi as wv'
    if isinstance(a, ast.excepthandler):  # the big one is of the other kind: put over the only handler it turns Try into TryStar and back
        star = isinstance(getattr(getattr(node, 'parent', None), 'a', None), ast.TryStar)
        return ('except X: pass' if star else 'except* (X, Y) as z:\n    w(v)') if big else ('except* X: pass' if star else 'except X: pass')
    if isinstance(a, ast.match_case):
        return 'case 9: pass'
    if isinstance(a, ast.comprehension):
        return 'for cc in dd'
    return None


def alive(node, root):
    """Still part of the tree: has an AST, and following parent links reaches the root through consistent fields."""
    n = node
    for _ in range(200):
        if getattr(n, 'a', None) is None:
            return False
        if n is root:
            return True
        p = getattr(n, 'parent', None)
        if p is None or getattr(p, 'a', None) is None:
            return False
        pf = n.pfield
        try:
            v = getattr(p.a, pf.name)
            if pf.idx is not None:
                v = v[pf.idx]
        except Exception:  # noqa: BLE001
            return False
        if v is not n.a or getattr(n.a, 'f', None) is not n:
            return False  # not reachable through its parent, or no longer the FST that owns its AST
        n = p
    return False


def key_of(item):
    """Identity of what is yielded: the AST node the FST stands for *at the time of the yield* (normalisation may hand the FST of a
    collapsed container over to its surviving operand; that operand is then a different node as far as the walk is concerned)."""
    n = item[0] if isinstance(item, tuple) else item
    return (id(n.a), bool(item[1])) if isinstance(item, tuple) else (id(n.a), None)


def node_of(item):
    return item[0] if isinstance(item, tuple) else item


def run_script(fst, ti, si, script, res, consumer='walk'):
    """Execute one script {step: action}; returns (number of yields, enabled flags) or None on failure."""
    src = TREES[ti]
    st = SETTINGS[si]
    kw = {k: v for k, v in st.items()}
    allv = kw.pop('all')
    root = fst.FST(src, 'exec')
    start = root
    if st.get('start') == 'stmt':
        start = root.body[-1]
    elif st.get('start') == 'inner':
        start = next((c for c in root.body[0].walk(True, self_=False) if c.first_child(True) is not None), root.body[0])
    kw.pop('start', None)
    default = list(start.walk(allv, **kw))            # reference order D on the untouched tree (C14 validates it)
    Dkeys = [key_of(x) for x in default]
    keep = list(default) + [node_of(x).a for x in default]  # hold references (FST and AST ids must not be recycled)
    cid = f'C15/t{ti}/s{si}/' + ','.join(f'{k}:{a[0]}-{a[1]}' for k, a in sorted(script.items())) + ('' if consumer == 'walk' else '/' + consumer)
    rep = {'tree': ti, 'setting': si, 'script': [[k, list(a)] for k, a in sorted(script.items())], 'consumer': consumer}
    params = {'on': st['on'], 'actions': ','.join(a[0] + '-' + str(a[1]) for _, a in sorted(script.items()))}
    horizon = 6 * (len(default) + 12 * len(script)) + 10
    res.evals += 1
    res.state(ti, si, tuple(sorted(script.items())))

    def bad(sym, detail):
        res.fail(cid, sym, f'tree={src!r}\nsetting={st}\nscript={sorted(script.items())}\n{detail}\nnow={root.src!r}', params, rep)

    gen = start.walk(allv, **kw)
    yielded = []
    ykeys_live = []
    seen = {}
    pending = list(Dkeys)       # original entries not yet yielded, in reference order
    pos = 0                     # position in D of the last original entry yielded
    dead_ok = set()             # ids of original nodes excused from being yielded (skipped by send(False), removed, replaced...)
    resent = set()
    excused = set()             # ids of nodes that were the target of a consumer edit (and what was below them)
    enabled = []
    step = 0
    sent = None
    expect_first_child_of = None
    try:
        with deadline(20):
            while True:
                try:
                    item = gen.send(sent) if sent is not None else next(gen)
                except StopIteration:
                    break
                if sent is not None:
                    sent = None
                    continue  # the value returned by send() is the same node again
                yielded.append(item)
                keep.append(item)
                g = node_of(item)
                keep.append(g.a)
                ykeys_live.append(key_of(item))
                res.transitions += 1
                if len(yielded) > horizon:
                    return bad('walk-does-not-terminate', f'{len(yielded)} yields, horizon {horizon}')
                if not alive(g, root):
                    return bad('yielded-node-not-part-of-tree', f'step {step}: {g!r}')
                k = key_of(item)
                is_entry = (st['on'] == 'enter') or (isinstance(item, tuple) and not item[1])
                if k in seen and id(g) not in resent and is_entry:
                    # the property forbids a second *entry* of a node; a container that normalisation collapsed onto its surviving
                    # operand is left once as that operand and once as the container, which is not an entry
                    return bad('node-yielded-twice', f'step {step}: {g!r} first at step {seen[k]}')
                seen[k] = step
                if expect_first_child_of is not None:
                    par, want_child = expect_first_child_of
                    expect_first_child_of = None
                    if want_child is not None and g is not want_child:
                        return bad('children-of-replacement-not-walked-next', f'step {step}: got {g!r} want {want_child!r}')
                act = script.get(step)
                if act is not None:
                    ok = do_action(fst, root, g, item, act, yielded, default, Dkeys, st, allv, resent, excused)
                    enabled.append(ok is not None)
                    if ok is None:
                        return ('not-enabled', step)
                    if ok not in ('send', 'noop') and live_vs_parse(root, 'Module'):
                        if LAST_EDIT and _fine_on_fresh_tree(fst, *LAST_EDIT[0]):
                            # the very same request on a fresh tree of the same source is sound: what broke it is the state the walk
                            # (and the edits made during it) left behind
                            return bad('edit-during-walk-breaks-tree-although-sound-on-a-fresh-tree',
                                       f'step {step}: {act} on {LAST_EDIT[0][1]} of {LAST_EDIT[0][0]!r}\nnow={root.src!r}')
                        res.outcomes['consumer-edit-itself-breaks-C01(reported-by-C01)'] += 1
                        return ('not-enabled', step)
                    if ok == 'send':
                        sent = act[1]
                    elif isinstance(ok, tuple) and ok[0] == 'replaced-cur':
                        newf = ok[1]
                        if st['on'] == 'enter' and kw.get('recurse', True) and not st.get('scope') and alive(newf, root):
                            fc = newf.last_child(allv) if st.get('back') else newf.first_child(allv)
                            expect_first_child_of = (newf, fc)
                step += 1
    except CaseTimeout:
        return bad('walk-does-not-terminate', 'deadline')
    except Exception as e:  # noqa: BLE001
        import traceback
        return bad('walk-raised:' + e.__class__.__name__, f'step {step}: {e!r}\n' + traceback.format_exc()[-600:])
    # continuation: original entries still alive and not excused must all have been yielded, in reference order
    ykeys = ykeys_live
    yset = set(ykeys)
    orig_order = [k for k in ykeys if k in set(Dkeys) and ('ast', k[0]) not in excused]
    idx = {k: i for i, k in enumerate(Dkeys)}
    if not script or all(a[0] != 'send' or a[1] is not True for a in script.values()):
        seq = [idx[k] for k in orig_order]
        if seq != sorted(seq):
            return bad('original-nodes-yielded-out-of-order', f'{seq}')
    res.traces += 1
    c01 = live_vs_parse(root, 'Module')
    if c01:
        return bad('C01-after-walk', c01)
    if not script:
        if ykeys != Dkeys:
            return bad('undisturbed-walk-differs-from-reference', '')
    else:
        # every original node that is still alive at the end and lies after the first action in reference order must have been
        # yielded unless it sits under a node that was skipped with send(False), or the walk was recurse=False / scope limited
        first = min(script)
        if st.get('recurse', True) and not any(a == ('send', False) for a in script.values()):
            for k, x in zip(Dkeys[first + 1:], default[first + 1:]):
                n = node_of(x)
                if k not in yset and (id(n.a), k[1]) in yset:
                    continue  # the same live node was yielded under the AST it stands for now (its statement changed class in place: Try <-> TryStar)
                if k not in yset and alive(n, root) and id(n) not in excused and ('ast', k[0]) not in excused and _passes(n, allv):
                    return bad('live-node-after-the-action-never-yielded', f'{n!r} (reference position {idx[k]})')
        res.nontriv(ti, si, tuple(sorted(script.items())))
    res.outcomes['ok'] += 1
    return (len(yielded), step)


def _passes(n, allv):
    if allv is True:
        return True
    from .c14 import in_all_false
    return in_all_false(n.a)


def _under_new(n, root, default):
    """Is n now located below a node that did not exist in the original tree (moved under a replacement)? never true for
    untouched originals; conservative False."""
    return False


LAST_EDIT = []  # [(source before, path of the target, 'replace' | 'remove', code)] of the latest single-node edit made by a consumer


def _path_of(t):
    p = []
    while t.parent is not None:
        p.append((t.pfield.name, t.pfield.idx))
        t = t.parent
    return p[::-1]


def _fine_on_fresh_tree(fst, src, path, kind, code):
    from ..fstnav import node_at
    try:
        fresh = fst.FST(src, 'exec')
        n = node_at(fresh, path)
        if kind == 'remove':
            n.remove(norm=True)
        else:
            n.replace(code, norm=True)
        return not live_vs_parse(fresh, 'Module')
    except Exception:  # noqa: BLE001
        return False


def do_action(fst, root, g, item, act, yielded, default, Dkeys, st, allv, resent, excused):
    """Perform the consumer's action; returns None if the action is not enabled (its own edit raised or no such target)."""
    kind, tgt = act
    del LAST_EDIT[:]
    if kind == 'send':
        if isinstance(item, tuple) and item[1] and tgt is False:
            pass
        if tgt is True:
            resent.add(id(g))
            for d in g.walk(True, self_=False):
                resent.add(id(d))
        return 'send'
    if kind == 'replace-leaf':
        if not isinstance(g.a, ast.Name) or (isinstance(item, tuple) and item[1]) or id(g) in excused:
            return 'noop'
        kind = 'replace'
    try:
        if kind == 'del-slice':  # the current element and / or its siblings deleted through the parent's slice interface
            par, pf = g.parent, g.pfield
            if par is None or pf.idx is None:
                return None
            pairs = {'Dict': ('keys', 'values'), 'MatchMapping': ('keys', 'patterns')}.get(par.a.__class__.__name__)
            lists = pairs if pairs and pf.name in pairs else (pf.name,)
            n = len(getattr(par.a, lists[0]))
            i, j = {'cur': (pf.idx, pf.idx + 1), 'cur-to-end': (pf.idx, n), 'after-cur': (pf.idx + 1, n), 'before-cur': (0, pf.idx)}[tgt]
            if i >= j:
                return None
            gone = [a_ for fld in lists for a_ in getattr(par.a, fld)[i:j] if a_ is not None]
            gone_f = [(a2, getattr(a2, 'f', None)) for a_ in gone for a2 in ast.walk(a_)]
            par_a = par.a
            below = [(a_, getattr(a_, 'f', None)) for a_ in ast.walk(par_a)]
            if pairs and pf.name in pairs:
                par.put_slice(None, i, j, norm=True)  # default field: the combined key/value (key/pattern) pairs
            else:
                par.put_slice(None, i, j, pf.name, norm=True)
            for a2, f2 in gone_f:
                excused.add(('ast', id(a2)))
                if f2 is not None:
                    excused.add(id(f2))
            if par.a is not par_a:  # normalisation collapsed the container onto its surviving operand: counts as a replaced parent
                excused.add(id(par))
                for a_, f_ in below:
                    excused.add(('ast', id(a_)))
                    if f_ is not None:
                        excused.add(id(f_))
            return True
        if tgt == 'cur':
            t = g
        elif tgt == 'cur-child':
            t = g.first_child(True)
            while t is not None and code_for(t, False) is None:
                t = t.next(True)
        elif tgt == 'parent':
            t = g.parent
        elif tgt == 'grand':
            t = g.parent.parent if g.parent else None
        elif tgt == 'prev':
            t = g.prev(allv)
        elif tgt == 'next':
            t = g.next(allv)
        elif tgt == 'walked':
            anc = set()
            p = g
            while p is not None:
                anc.add(id(p))
                p = p.parent
            t = next((node_of(y) for y in yielded[:-1] if id(node_of(y)) not in anc and alive(node_of(y), root)
                      and not _is_under(g, node_of(y))), None)
        elif tgt == 'future':
            seen = {id(node_of(y)) for y in yielded}
            t = next((node_of(y) for y in reversed(default) if id(node_of(y)) not in seen and alive(node_of(y), root)
                      and not _is_under(node_of(y), g) and not _is_under(g, node_of(y))), None)
        else:
            return None
        if t is None or t is root or not alive(t, root):
            return None
        excused.add(id(t))
        for dsc in t.walk(True, self_=False):
            excused.add(id(dsc))
        if kind == 'remove':
            par = t.parent
            par_a = par.a if par is not None else None
            below = [(a_, getattr(a_, 'f', None)) for a_ in ast.walk(par_a)] if par_a is not None else []
            LAST_EDIT.append((root.src, _path_of(t), 'remove', None))
            t.remove(norm=True)
            if par is not None and par.a is not par_a and par_a is not None:
                # normalisation collapsed the container onto its surviving operand: the parent counts as replaced, everything that
                # was below it is excused from the continuation-order expectations (it is still checked for liveness / entries)
                excused.add(id(par))
                for a_, f_ in below:
                    excused.add(('ast', id(a_)))
                    if f_ is not None:
                        excused.add(id(f_))
            return True
        if kind in ('replace', 'replace-big', 'replace-scope'):
            code = code_for(t, kind == 'replace-big')
            if kind == 'replace-scope':  # the new node opens a scope of its own (matters to scope walks)
                code = '[n1 for n1 in n2 if n3]' if isinstance(t.a, ast.expr) and isinstance(getattr(t.a, 'ctx', ast.Load()), ast.Load) else None
            if code is None:
                return None
            LAST_EDIT.append((root.src, _path_of(t), 'replace', code))
            new = t.replace(code, norm=True)
            return ('replaced-cur', new) if (t is g and new is not None) else True
        if kind == 'replace-slice':
            code = code_for(t, True)
            if code is None or t.pfield.idx is None:
                return None
            t.parent.put_slice(code if not isinstance(t.a, ast.stmt) else 's1\ns2', t.pfield.idx, t.pfield.idx + 1, t.pfield.name, norm=True)
            return True
        if kind in ('insert-before', 'insert-after'):
            if t.pfield.idx is None:
                return None
            code = code_for(t, False)
            if code is None:
                return None
            t.parent.insert(code, t.pfield.idx + (kind == 'insert-after'), t.pfield.name, norm=True)
            return True
    except CaseTimeout:
        raise
    except Exception:  # noqa: BLE001  the consumer's own edit is invalid here: action not enabled
        return None
    return None


def _is_under(n, anc):
    while n is not None:
        if n is anc:
            return True
        n = n.parent
    return False


def explore(fst, ti, si, depth, actions, res, consumer='walk'):
    base = run_script(fst, ti, si, {}, res, consumer)
    if not isinstance(base, tuple) or base[0] == 'not-enabled':
        return
    n0 = base[0]

    def rec(script, start, n, d):
        for step in range(start, n):
            for act in actions:
                s2 = dict(script)
                s2[step] = act
                r = run_script(fst, ti, si, s2, res, consumer)
                if isinstance(r, tuple) and r[0] != 'not-enabled' and d + 1 < depth:
                    rec(s2, step + 1, r[0], d + 1)
                elif isinstance(r, tuple) and r[0] == 'not-enabled':
                    res.outcomes['action-not-enabled'] += 1
    rec({}, 0, n0, 0)
    if depth == 1:  # the everyday rewriting loop: every name met during the walk is replaced (as many edits as there are names, caches
        # filled by earlier edits are in play for later ones)
        r = run_script(fst, ti, si, {k: ('replace-leaf', 'cur') for k in range(n0)}, res, consumer)
        if isinstance(r, tuple) and r[0] == 'not-enabled':
            res.outcomes['action-not-enabled'] += 1


SEND_SEQS = [(False,), (True,), (True, False), (False, True), (False, False, True), (True, True, False)]


def _gens(fst, M):
    """(name, factory(root) -> generator, reference walk kwargs, filter, default descend)"""
    out = []
    for allv in (True, False):
        for rec in (True, False):
            for back in (False, True):
                out.append((f'walk(all={allv},recurse={rec},back={back})',
                            lambda r, allv=allv, rec=rec, back=back: r.walk(allv, recurse=rec, back=back), dict(back=back), allv, None, rec))
    pats = {'MName': lambda: M.MName(), 'Mexpr': lambda: M.Mexpr(), 'MList|MCall': lambda: M.MOR(M.MList(), M.MCall()), 'Mstmt': lambda: M.Mstmt()}
    for pn, mk in pats.items():
        for nested in (False, True):
            for back in (False, True):
                out.append((f'search({pn},nested={nested},back={back})',
                            lambda r, mk=mk, nested=nested, back=back: r.search(mk(), nested, back=back), dict(back=back), True, mk, nested))
    return out


def run_send_protocol(fst, ti, res):
    """send() protocol of walk() and search(): several values may be sent at one yield, the LAST one decides whether the walk goes
    below the node just yielded. Reference: a simulation over the undisturbed pre-order (C14 validates that order)."""
    import fst.match as M
    src = TREES[ti]
    for name, mkgen, wkw, allv, mkpat, default_descend in _gens(fst, M):
        root = fst.FST(src, 'exec')
        W = list(root.walk(True, **wkw))  # every node, in the order of this direction
        keep = list(W)
        if mkpat is None:
            from .c14 import in_all_false
            passes = {id(n): (allv is True or in_all_false(n.a)) for n in W}
        else:
            pat = mkpat()
            passes = {id(n): bool(n.match(pat)) for n in W}
        anc = {}
        for n in W:
            a, p = set(), n.parent
            while p is not None:
                a.add(id(p))
                p = p.parent
            anc[id(n)] = a

        def simulate(decide):
            """decide(yield index) -> True / False / None (no send)"""
            out, skipped, forced, k = [], set(), set(), 0
            for n in W:
                if anc[id(n)] & skipped:
                    continue
                if mkpat is None and anc[id(n)] & forced:  # below a node the consumer sent True for: walked unconditionally
                    if passes[id(n)]:
                        out.append(n)
                        k += 1
                    continue
                if not passes[id(n)]:
                    if mkpat is None and allv is not True:
                        pass  # filtered out by `all`, still descended into
                    continue
                out.append(n)
                d = decide(k)
                k += 1
                descend = default_descend if d is None else d
                if mkpat is None and n is root and d is None:
                    descend = True  # recurse=False still walks the children of the start node
                if not descend:
                    skipped.add(id(n))
                elif d is True and mkpat is None:
                    forced.add(id(n))
            return out
        base = simulate(lambda k: None)
        try:
            got0 = list(mkgen(fst.FST(src, 'exec')))
        except Exception as e:  # noqa: BLE001
            res.fail(f'C15/send/t{ti}/{name}', 'walk-raised:' + e.__class__.__name__, repr(e), {}, {'sendproto': ti})
            continue
        if len(got0) != len(base):
            res.outcomes['send-protocol-reference-not-applicable'] += 1  # e.g. the root is not walked with recurse=False the way the model assumes
            continue
        for k in range(len(base)):
            for seq in SEND_SEQS:
                cid = f'C15/send/t{ti}/{name}/at{k}:{seq}'
                res.evals += 1
                want = simulate(lambda j, k=k, seq=seq: seq[-1] if j == k else None)
                r2 = fst.FST(src, 'exec')
                W2 = list(r2.walk(True, **wkw))
                index = {id(n): i for i, n in enumerate(W2)}
                gen = mkgen(r2)
                got = []
                try:
                    j = 0
                    for item in gen:
                        node = item.matched if hasattr(item, 'matched') else item
                        got.append(index.get(id(node), -1))
                        res.transitions += 1
                        if j == k:
                            for v in seq:
                                gen.send(v)
                        j += 1
                        if j > 4 * len(W) + 10:
                            break
                except Exception as e:  # noqa: BLE001
                    res.fail(cid, 'walk-raised:' + e.__class__.__name__, f'tree={src!r}\n{e!r}', {'gen': name}, {'sendproto': ti})
                    continue
                res.traces += 1
                wi = {id(n): i for i, n in enumerate(W)}
                want_idx = [wi[id(n)] for n in want]
                if got != want_idx:
                    res.fail(cid, 'send-not-honoured', f'tree={src!r}\n{name}: values {seq} sent at yield {k}\ngot ={got}\nwant={want_idx} (indices into the undisturbed order)',
                             {'gen': name}, {'sendproto': ti})
                else:
                    res.nontriv('send', ti, name, k, seq)
                    res.outcomes['send-ok'] += 1


def shards(tier):
    out = [{'tree': t, 'setting': s, 'depth': 1} for t in range(len(TREES)) for s in range(len(SETTINGS))]
    out += [{'sendproto': t} for t in range(len(TREES))]
    d2t = (0, 3, 4, 7) if tier == 'quick' else range(len(TREES))
    d2s = (0, 1, 4, 7) if tier == 'quick' else (0, 1, 2, 4, 7, 10)
    out += [{'tree': t, 'setting': s, 'depth': 2, 'lite': True} for t in d2t for s in d2s]
    if tier == 'thorough':
        out += [{'tree': t, 'setting': 0, 'depth': 3, 'lite': True} for t in (0, 3)]
    return out


def run_shard(desc, tier, res):
    import fst
    if 'sendproto' in desc:
        run_send_protocol(fst, desc['sendproto'], res)
        return
    explore(fst, desc['tree'], desc['setting'], desc['depth'], ACTIONS_LITE if desc.get('lite') else ACTIONS, res)
    res.sample({'tree': TREES[desc['tree']], 'setting': {k: str(v) for k, v in SETTINGS[desc['setting']].items()}, 'depth': desc['depth']})


def replay(rep, res):
    import fst
    if 'sendproto' in rep:
        run_send_protocol(fst, rep['sendproto'], res)
        return
    script = {int(k): tuple(a) for k, a in rep['script']}
    r = run_script(fst, rep['tree'], rep['setting'], script, res, rep.get('consumer', 'walk'))
    print('result', r)
