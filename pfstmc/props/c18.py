"""C18 - substitution rewrites exactly the matched nodes with the filled-in template.

enum engine: programs x (pattern, predicate, template builder) table x nested / count / on / loop / back settings;
reference = a hand-written transformer over pure ASTs (outermost first, or recursive when nested / bottom-up on leave)."""
from __future__ import annotations

import ast
import copy

from .. import oracle as O
from ..core import CaseTimeout, deadline
from ..fstnav import live_vs_parse

ID = 'C18'
LEVEL = 'model_checking'
TECHNIQUE = ('bounded exhaustive enumeration of (program, pattern/template, nested, count, on, loop, back) on the real sub()/subn(), each '
             'result compared with a reference pure-AST transformer (structure, counts), C01 and line preservation outside the '
             'substituted statements')
LEVEL_TEXT = ('23 programs x 26 (pattern, template) pairs (single-node, whole-match, swap, unwrap, slice, multi-node Dict, string slots, template material that matches the pattern, statement with '
              'slice captures, identity) x all combinations of nested/count/on/loop/back/callback that the reference defines are executed on the '
              'real code and compared with the reference transformer')
LEVEL_NOTE = ('trusted: CPython ast (unparse->parse normal form) and the reference transformer written from the documented semantics '
              '(template originals and the whole-match top node are never re-substituted; nested recursion continues into the new node)')
RULE = ('enum: case = (program, rule, settings); non-trivial = distinct cases with >= 1 substitution; states = distinct result sources; '
        'traces = cases compared with the reference')
ASSUMPTIONS = ['count limits are compared only for nested=False (walk order of the new tree is otherwise template dependent)']
BOUNDS = {'quick': '23 programs x 26 rules x nested {F,T} x on {enter, leave} x back {F,T} + count {1,2} x back x on (nested=False) + loop 2, 3 (unwrap rule) + 5 callback schedules (which calls answer skip) on 6 rules',
          'thorough': 'same (the space is small and completed in quick)'}

PROGS = [
    "r = a + b * c - d  # c1",
    "x = f(a)(b) + g(h(i))\ny = k",
    "y = [a, [b, c], d + e]",
    "if a:\n    b  # c1\nelse:\n    c\nif d:\n    e = f + g\n    h\nelse:\n    i = [j]",
    "z = {a: b, c: d, e: f}\nw = {k: {a: b, c: d, e: f}}  # c2",
    "def fn(p):\n    # c3\n    return p + q * (r - s)\nt = u",
    "v = a if b + c else [d, e + f]\nw = (g + h)(i)",
    "# c4\nm = [[n, o], [p + q, [r]]]  # c5\ns = t",
    "for i in a + b:\n    if c:\n        d = e(f)(g)\n    else:\n        h = i + j\nk = l",
    "x = a.b(c).d(e + f)  # c6",
    "p = not a + b\nq = -c * d\nr = [e for e in f + g]",
    "é = ü + ö('ñ')(ä)  # çé\nδ = [é, [ü]]",
    "x = g(h) + f(a)(b)(c)(d)\ny = p(q)(r) + s(t)(u)(v)(w)",
    "def f(名前, 既定='値', *rest, k=1, **kw): return 1\nx = 2",
    "def g(a, b=2, /, c=3): pass  # c7\ndef h(j, k='é', **kw):\n    pass",
    "trace(cmd, level=2, *args)\nlog(a, *b, k=c, **d)\nrun(x)\nn()",
    "t(k=1, *a, *b, j=2)\nu(*v, w, x=y)  # c8\nz = p(q, r=s(*t, u=v, *w), **k)",
    "t = sum(x for x in xs)\nu = f((y for y in ys), z)\nv = any(\n    w for w in ws\n)",
    # one name in every expression context (the ctx parameter decides whether a context instance in the pattern is compared)
    "x = x + 1\ndel x, y\nfor x in x: pass\nz = [x for x in w if x]\nwith a as x: x",
    # patterns
    "match s:\n    case [a, b]: pass\n    case (c, [d, e]): pass\n    case 1 | 2: x\n    case {3: [f, g]}: y",
    # blocks inside blocks
    "if a:\n    if b:\n        c\n    d\nif e: f\nelif g:\n    if h: i\nq",
    # parameter lists of every size from zero to two
    "def z(): pass\ndef one(a): return a\ndef dflt(b=1): return b\ndef star(*c): pass\nl = lambda k: k\ndef two(d, e=2): pass",
    # multi-byte text on the last line of the last statement of nested blocks (block ends are byte positions)
    "def f(é):\n    if é:\n        ü = 'ñ' + é\n    else:\n        ö = [é, 'ß']\n    return f('çé')  # ä\nclass K:\n    x = 'é'; y = ü(x)",
]
for _p in PROGS:
    ast.parse(_p)


def T(node):
    """mark a template-original node"""
    for n in ast.walk(node):
        n._tmpl = True
    return node


def name(s):
    return ast.Name(id=s, ctx=ast.Load())


def rules(M):
    R = {}
    R['name->log'] = (M.MName(ctx=ast.Load), lambda n: isinstance(n, ast.Name) and isinstance(n.ctx, ast.Load),
                      lambda n: ast.Call(func=T(name('log')), args=[n], keywords=[], _tmpl=True), 'log(__FST_)', True)
    R['binop->f'] = (M.MBinOp(), lambda n: isinstance(n, ast.BinOp),
                     lambda n: ast.Call(func=T(name('f')), args=[n], keywords=[], _tmpl=True), 'f(__FST_)', True)
    R['binop-swap'] = (M.MBinOp(left=M.M(l=...), right=M.M(r=...)), lambda n: isinstance(n, ast.BinOp),
                       lambda n: ast.BinOp(left=n.right, op=ast.Sub(), right=n.left, _tmpl=True), '__FST_r - __FST_l', False)
    R['call-unwrap'] = (M.MCall(func=M.M(f=...)), lambda n: isinstance(n, ast.Call), lambda n: n.func, '__FST_f', False)
    R['expr-identity'] = (M.Mexpr(ctx=ast.Load), lambda n: isinstance(n, ast.expr) and isinstance(getattr(n, 'ctx', None), ast.Load),
                          lambda n: n, '__FST_', True)
    R['list-slice'] = (M.MList(elts=M.M(e=...)), lambda n: isinstance(n, ast.List) and isinstance(n.ctx, ast.Load),
                       lambda n: ast.List(elts=[T(name('first'))] + list(n.elts) + [T(name('last'))], ctx=ast.Load(), _tmpl=True),
                       '[first, __FST_e, last]', False)
    R['dict-mid'] = (M.MDict(_all=[..., M.M(mid=...), ...]), lambda n: isinstance(n, ast.Dict) and len(n.keys) == 3,
                     lambda n: ast.Dict(keys=[T(name('x')), n.keys[1]], values=[T(name('y')), n.values[1]], _tmpl=True),
                     '{x: y, "...": __FST_mid}', False)
    R['if-swap'] = (M.MIf(test=M.M(t=...), body=M.M(b=...), orelse=M.M(e=...)), lambda n: isinstance(n, ast.If),  # (an If without else gives an empty body: not valid Python, not judged)
                    lambda n: ast.If(test=ast.UnaryOp(op=ast.Not(), operand=n.test, _tmpl=True), body=list(n.orelse), orelse=list(n.body),
                                     _tmpl=True), 'if not __FST_t:\n    __FST_e\nelse:\n    __FST_b', False)
    R['stmt-identity'] = (M.Mstmt(), lambda n: isinstance(n, ast.stmt), lambda n: n, '__FST_', True)

    def wrapper(n):
        a = n.args
        pos = a.posonlyargs + a.args
        nd = len(pos) - len(a.defaults)
        args = [ast.Name(id=p.arg, ctx=ast.Load(), _tmpl=True) for p in pos[:nd]]
        kws = [ast.keyword(arg=p.arg, value=copy.deepcopy(d), _tmpl=True) for p, d in zip(pos[nd:], a.defaults)]
        if a.vararg:
            args.append(ast.Starred(value=ast.Name(id=a.vararg.arg, ctx=ast.Load()), ctx=ast.Load(), _tmpl=True))
        for p, d in zip(a.kwonlyargs, a.kw_defaults):
            if d is None:
                raise ValueError('kwonly without default')
            kws.append(ast.keyword(arg=p.arg, value=copy.deepcopy(d), _tmpl=True))
        if a.kwarg:
            kws.append(ast.keyword(arg=None, value=ast.Name(id=a.kwarg.arg, ctx=ast.Load()), _tmpl=True))
        call = ast.Call(func=T(name('impl')), args=args, keywords=kws, _tmpl=True)
        return ast.FunctionDef(name='wrapper', args=a, body=[ast.Return(value=call, _tmpl=True)], decorator_list=[], type_params=[],
                               lineno=1, _tmpl=True)
    # quantifier captures over call arguments put into a template slot: Call.args alone, and the position-merged _args
    R['call-args-tail'] = (M.MCall(args=[M.M(head=...), M.MQSTAR(tail=...)]), lambda n: isinstance(n, ast.Call) and len(n.args) >= 1,
                           lambda n: ast.Call(func=T(name('wrapped')), args=list(n.args[1:]), keywords=[], _tmpl=True),
                           'wrapped(__FST_tail)', False)

    def merged_tail(n):
        m = sorted(list(n.args) + list(n.keywords), key=lambda x: (x.lineno, x.col_offset))[1:]
        return ast.Call(func=T(name('wrapped')), args=[x for x in m if not isinstance(x, ast.keyword)],
                        keywords=[x for x in m if isinstance(x, ast.keyword)], _tmpl=True)
    R['call-_args-tail'] = (M.MCall(_args=[M.M(head=...), M.MQSTAR(tail=...)]),
                            lambda n: isinstance(n, ast.Call) and len(n.args) + len(n.keywords) >= 1, merged_tail, 'wrapped(__FST_tail)', False)
    R['call-_args-init'] = (M.MCall(_args=[M.MQSTAR.NG(init=...), M.M(last=...)]),
                            lambda n: isinstance(n, ast.Call) and len(n.args) + len(n.keywords) >= 1,
                            lambda n: ast.Call(func=T(name('wrapped')), args=[x for x in sorted(list(n.args) + list(n.keywords), key=lambda x: (x.lineno, x.col_offset))[:-1] if not isinstance(x, ast.keyword)],
                                               keywords=[x for x in sorted(list(n.args) + list(n.keywords), key=lambda x: (x.lineno, x.col_offset))[:-1] if isinstance(x, ast.keyword)], _tmpl=True),
                            'wrapped(__FST_init)', False)
    # templates written inside grouping parentheses (the usual way to write a multi-line template), matched node shares its
    # parentheses with the enclosing call
    R['genexp->list'] = (M.MGeneratorExp(), lambda n: isinstance(n, ast.GeneratorExp),
                         lambda n: ast.Call(func=T(name('list')), args=[n], keywords=[], _tmpl=True), '(list(__FST_))', True)
    R['genexp->or'] = (M.MGeneratorExp(), lambda n: isinstance(n, ast.GeneratorExp),
                       lambda n: ast.BoolOp(op=ast.Or(), values=[n, T(ast.Tuple(elts=[], ctx=ast.Load()))], _tmpl=True), '(__FST_ or\n ())', True)
    R['name->par'] = (M.MName(ctx=ast.Load), lambda n: isinstance(n, ast.Name) and isinstance(n.ctx, ast.Load),
                      lambda n: ast.BinOp(left=n, op=ast.Add(), right=T(ast.Constant(value=0)), _tmpl=True), '(__FST_ +\n 0)', True)
    R['def->wrapper'] = (M.MFunctionDef(args=M.M(a=...)), lambda n: isinstance(n, ast.FunctionDef), wrapper,
                         'def wrapper(__FST_a):\n    return impl(__FSS_a)', False)
    # a template of several statements: the matched statement is replaced by all of them (and, nested, what they contain is searched)
    R['if->two-stmts'] = (M.MIf(test=M.M(t=...), body=M.M(b=...)), lambda n: isinstance(n, ast.If),
                          lambda n: [T(ast.Expr(value=name('x'))), ast.While(test=n.test, body=list(n.body), orelse=[], _tmpl=True)],
                          'x\nwhile __FST_t:\n    __FST_b', False)
    # slots below a pattern node that is not a slot itself ('<pattern> as name' with an ordinary capture name)
    R['seq->as'] = (M.MMatchSequence(patterns=[M.M(p=...), M.M(q=...)]), lambda n: isinstance(n, ast.MatchSequence) and len(n.patterns) == 2,
                    lambda n: ast.MatchAs(pattern=ast.MatchSequence(patterns=[n.patterns[1], n.patterns[0]], _tmpl=True), name='both', _tmpl=True),
                    ('FST', '[__FST_q, __FST_p] as both', 'pattern'), False)
    R['value->or-as'] = (M.MMatchValue(), lambda n: isinstance(n, ast.MatchValue),
                         lambda n: ast.MatchAs(pattern=ast.MatchOr(patterns=[n, T(ast.MatchSingleton(value=None))], _tmpl=True), name='v', _tmpl=True),
                         ('FST', '(__FST_ | None) as v', 'pattern'), True)
    # whole-match slot where the slot is an element made of several nodes (a parameter with its default): structure unchanged
    R['args-identity'] = (M.Marguments(), lambda n: isinstance(n, ast.arguments), lambda n: n, ('FST', '__FST_', 'arguments'), True)
    # a slot inside a string literal of the template receives the matched source as text (documented): the result is a Constant
    R['name->str'] = (M.MName(ctx=ast.Load), lambda n: isinstance(n, ast.Name) and isinstance(n.ctx, ast.Load),
                      lambda n: ast.Constant(value=f'got {n.id} here', _tmpl=True), '"got __FST_ here"', False)
    R['name->str2'] = (M.MName(ctx=ast.Load), lambda n: isinstance(n, ast.Name) and isinstance(n.ctx, ast.Load),
                       lambda n: ast.Constant(value=f'<{n.id}|{n.id}> {n.id}', _tmpl=True), '"<__FST_|__FST_>" " __FST_"', False)
    # a plain-AST pattern carrying an expression-context INSTANCE: compared only when sub(..., ctx=True)
    R['name-x-ctx'] = (ast.Name(id='x', ctx=ast.Load()),
                       lambda n: isinstance(n, ast.Name) and n.id == 'x' and (not CTX[0] or isinstance(n.ctx, ast.Load)),
                       lambda n: ast.Subscript(value=n, slice=T(ast.Constant(value=0)), ctx=ast.Load(), _tmpl=True), '__FST_[0]', True)
    # template material that itself matches the pattern and stands BEHIND the slot: with nested=True the search goes into the put
    # template, substitutes inside the captured content and comes back to the template's own nodes - they must stay as written
    R['binop->g-tail'] = (M.MBinOp(), lambda n: isinstance(n, ast.BinOp),
                          lambda n: ast.Call(func=T(name('g')), args=[n, T(ast.BinOp(left=name('x'), op=ast.Mult(), right=name('y')))], keywords=[],
                                             _tmpl=True), 'g(__FST_, x*y)', True)
    R['call->wrap-tail'] = (M.MCall(func=M.M(fn=...)), lambda n: isinstance(n, ast.Call),
                            lambda n: ast.Call(func=T(name('w')), args=[n.func, T(ast.Call(func=name('t'), args=[name('z')], keywords=[]))],
                                               keywords=[ast.keyword(arg='k', value=T(ast.Call(func=name('u'), args=[], keywords=[])), _tmpl=True)],
                                               _tmpl=True), 'w(__FST_fn, t(z), k=u())', False)
    R['list->lists'] = (M.MList(elts=M.M(e=...)), lambda n: isinstance(n, ast.List) and isinstance(n.ctx, ast.Load),
                        lambda n: ast.List(elts=[T(ast.List(elts=[name('p')], ctx=ast.Load()))] + list(n.elts) + [T(ast.List(elts=[], ctx=ast.Load()))],
                                           ctx=ast.Load(), _tmpl=True), '[[p], __FST_e, []]', False)
    return R


CTX = [False]


class Ref:
    def __init__(self, pred, build, whole, nested, count, on, loop, back, cb=None):
        self.pred, self.build, self.whole = pred, build, whole
        self.nested, self.count, self.on, self.loop, self.back = nested, count, on, loop, back
        self.unique = 0
        self.total = 0
        self.cb, self.ncalls = cb, 0

    def skip(self):
        """the callback is asked before every substitution (every loop iteration too); truthy = skip this one"""
        if self.cb is None:
            return False
        self.ncalls += 1
        return cb_skips(self.cb, self.ncalls)

    def budget(self):
        return self.count == 0 or self.unique < self.count

    def kids(self, node):
        """(field, index, child) in syntactic order (by position; unpositioned keep field order)."""
        out = []
        for f, v in ast.iter_fields(node):
            if isinstance(v, list):
                for i, c in enumerate(v):
                    if isinstance(c, ast.AST):
                        out.append((f, i, c))
            elif isinstance(v, ast.AST):
                out.append((f, None, v))
        def key(t):
            c = t[2]
            return (getattr(c, 'lineno', 10 ** 9), getattr(c, 'col_offset', 10 ** 9)) if hasattr(c, 'lineno') else None
        keyed = [t for t in out if key(t) is not None and not getattr(t[2], '_tmpl', False)]
        if len(keyed) == len(out):
            out.sort(key=key)
        return out[::-1] if self.back else out

    def visit_kids(self, node, skip=None):
        """visit the children in syntactic order; a child replaced by a list of statements is spliced into its list"""
        repl = {}
        for f, i, c in self.kids(node):
            new = self.visit(c, skip_self=(skip is not None and c is skip))
            if new is not c:
                repl[(f, i)] = new
        for (f, i), new in repl.items():
            if i is None:
                setattr(node, f, new)
        for f in {f for (f, i) in repl if i is not None}:
            out = []
            for i, c in enumerate(getattr(node, f)):
                r = repl.get((f, i), c)
                out.extend(r if isinstance(r, list) else [r])
            setattr(node, f, out)
        return node

    def visit_children(self, node):
        return self.visit_kids(node)

    def visit(self, node, skip_self=False):
        if self.on == 'leave':
            self.visit_children(node)
            if not skip_self and not getattr(node, '_tmpl', False) and self.pred(node) and self.budget():
                if self.skip():
                    return node
                return self.subst(node)
            return node
        if not skip_self and not getattr(node, '_tmpl', False) and self.pred(node) and self.budget():
            if self.skip():  # a skipped match is not substituted and not counted; nested search still goes into it
                return self.visit_children(node) if self.nested else node
            new = self.subst(node)
            if self.nested:
                if new is node:  # identity template: the whole-match top node is not considered again, its children are
                    self.visit_children(new)
                else:
                    for top in (new if isinstance(new, list) else [new]):
                        self.visit_kids(top, skip=node if self.whole else None)
            return new
        return self.visit_children(node)

    def subst(self, node):
        self.unique += 1
        self.total += 1
        new = self.build(node)
        n = 1
        while self.loop and n < self.loop and new is not node and not getattr(new, '_tmpl', False) and self.pred(new):
            if self.skip():
                break
            new = self.build(new)
            self.total += 1
            n += 1
        return new


CALLBACKS = ('1', '2', '2+', 'odd', 'all')  # which calls of the callback answer "skip"


def cb_skips(cb, n):
    return {'1': n == 1, '2': n == 2, '2+': n >= 2, 'odd': n % 2 == 1, 'all': True}[cb]


def settings(rule):
    for nested in (False, True):
        for on in ('enter', 'leave'):
            yield dict(nested=nested, count=0, on=on, loop=False, back=False)
    for count in (1, 2):
        for back in (False, True):
            yield dict(nested=False, count=count, on='enter', loop=False, back=back)
            yield dict(nested=False, count=count, on='leave', loop=False, back=back)
    for nested in (False, True):
        for on in ('enter', 'leave'):
            yield dict(nested=nested, count=0, on=on, loop=False, back=True)
    if rule == 'call-unwrap':
        yield dict(nested=False, count=0, on='enter', loop=2, back=False)
        yield dict(nested=False, count=0, on='enter', loop=3, back=False)
    if rule in ('name->log', 'binop->f', 'call-unwrap', 'list-slice', 'binop->g-tail', 'if-swap'):
        for cb in CALLBACKS:
            for nested in (False, True):
                yield dict(nested=nested, count=0, on='enter', loop=False, back=False, cb=cb)
            yield dict(nested=False, count=0, on='leave', loop=False, back=False, cb=cb)
            yield dict(nested=False, count=1, on='enter', loop=False, back=True, cb=cb)
            if rule == 'call-unwrap':
                yield dict(nested=False, count=0, on='enter', loop=3, back=False, cb=cb)
                yield dict(nested=False, count=1, on='enter', loop=2, back=False, cb=cb)
    if rule == 'name-x-ctx':
        for ctx in (False, True):
            for count in (0, 2):
                for back in (False, True):
                    yield dict(nested=False, count=count, on='enter', loop=False, back=back, ctx=ctx)


def run_case(fst, M, pi, rname, st, res):
    src = PROGS[pi]
    pat, pred, build, tmpl, whole = rules(M)[rname]
    cid = f'C18/p{pi}/{rname}/' + ','.join(f'{k}={v}' for k, v in st.items())
    rep = {'prog': pi, 'rule': rname, 'st': st}
    params = {'rule': rname, **{k: str(v) for k, v in st.items()}, 'string_slot': str(rname in STRING_SLOT_RULES)}
    res.evals += 1
    res.transitions += 1
    tree = ast.parse(src)
    st = dict(st)
    ctx = st.pop('ctx', None)
    CTX[0] = bool(ctx)
    if rname == 'name-x-ctx' and ctx is None:
        return  # the generic settings do not say which contexts count
    kw = {} if ctx is None else {'ctx': ctx}
    ref = Ref(pred, build, whole, **st)
    cb = st.pop('cb', None)
    after = []
    if cb is not None:
        ncalls = [0]

        def callback(m):
            ncalls[0] += 1
            return cb_skips(cb, ncalls[0])
        kw['callback'] = callback
        kw['callback_after'] = after.append
    try:
        want_tree = ref.visit(tree)
        want_src = ast.unparse(want_tree)
        want = ast.parse(want_src)
    except RecursionError:
        res.outcomes['reference-not-applicable:RecursionError'] += 1
        return
    except Exception as e:  # noqa: BLE001
        res.outcomes['reference-not-applicable:' + e.__class__.__name__] += 1
        return
    if not O.compiles(want_src) and 'yield' not in want_src:
        res.outcomes['reference-result-not-valid-python'] += 1
        return
    root = fst.FST(src, 'exec')
    if isinstance(tmpl, tuple):  # template given as a tree of a particular kind
        mk = tmpl
        tmpl = fst.FST(mk[1], mk[2])
    try:
        with deadline(20):
            out, unique, total = root.subn(pat, tmpl, st['nested'], count=st['count'], on=st['on'], loop=st['loop'], back=st['back'], **kw)
    except CaseTimeout:
        res.fail(cid, 'hang', f'src={src!r}', params, rep)
        return
    except Exception as e:  # noqa: BLE001
        if e.__class__.__name__ in ('NodeError', 'ValueError', 'NotImplementedError'):
            res.outcomes['sub-refused:' + e.__class__.__name__] += 1  # a documented refusal (e.g. a bare '*' cannot become a call argument)
            return
        res.fail(cid, 'sub-raised:' + e.__class__.__name__, f'src={src!r}\npattern={rname} template={tmpl!r}\n{e!r}\nreference={want_src!r}',
                 params, rep)
        return
    res.traces += 1
    if out is not root:
        res.fail(cid, 'sub-did-not-return-self', '', params, rep)
        return
    bad = live_vs_parse(root, 'Module')
    if bad:
        res.fail(cid, 'C01-after-sub', f'src={src!r}\n{bad}', params, rep)
        if rname not in STRING_SLOT_RULES:
            return
        cid += '/source'  # string slots: the stale Constant value is a known finding; the SOURCE is still judged against the reference
        if O.try_parse(root.src) is None:
            res.fail(cid, 'result-source-does-not-parse', f'src={src!r}\nresult={root.src!r}\nreference={want_src!r}', params, rep)
            return
    got = O.dump(ast.parse(root.src))
    if got != O.dump(want):
        res.fail(cid, 'result-differs-from-reference', f'src={src!r}\nresult   ={root.src!r}\nreference={want_src!r}', params, rep)
        return
    if (unique, total) != (ref.unique, ref.total):
        res.fail(cid, 'counts-differ-from-reference', f'src={src!r}\nresult={root.src!r}\ncounts={(unique, total)} reference={(ref.unique, ref.total)}',
                 params, rep)
        return
    if cb is not None and (ncalls[0], len(after)) != (ref.ncalls, ref.total):
        res.fail(cid, 'callback-calls-differ-from-reference', f'src={src!r}\nresult={root.src!r}\ncallback calls={ncalls[0]} callback_after calls='
                 f'{len(after)} reference={(ref.ncalls, ref.total)}', params, rep)
        return
    # text outside substituted statements is preserved: top-level statements without any substitution keep their full lines
    if rname.endswith('identity'):
        if O.dump(ast.parse(root.src)) != O.dump(ast.parse(src)):
            res.fail(cid, 'identity-template-changed-structure', f'src={src!r}\nresult={root.src!r}', params, rep)
            return
    else:
        lines = src.split('\n')
        t0 = ast.parse(src)
        for i, stmt in enumerate(t0.body):
            if any(pred(n) for n in ast.walk(stmt)):
                continue
            seg = '\n'.join(lines[stmt.lineno - 1:stmt.end_lineno])
            if seg not in root.src:
                res.fail(cid, 'untouched-statement-text-changed', f'src={src!r}\nresult={root.src!r}\nstatement={seg!r}', params, rep)
                return
        # comments are never lost
        for c in (O.comments(src) or []):
            if c not in (O.comments(root.src) or []) and ref.unique == 0:
                res.fail(cid, 'comment-lost-without-substitution', f'{c}', params, rep)
                return
    # sub() is subn() without the counts: same arguments, same tree
    root2 = fst.FST(src, 'exec')
    try:
        pat2, _, _, tmpl2, _ = rules(M)[rname]
        if isinstance(tmpl2, tuple):
            tmpl = fst.FST(tmpl2[1], tmpl2[2])
        if cb is not None:
            ncalls[0] = 0
        out2 = root2.sub(pat2, tmpl, st['nested'], count=st['count'], on=st['on'], loop=st['loop'], back=st['back'], **kw)
        if out2 is not root2 or root2.src != root.src or O.dump_pos(root2.a) != O.dump_pos(root.a):
            res.fail(cid, 'sub-differs-from-subn', f'src={src!r}\nsubn={root.src!r}\nsub ={root2.src!r}', params, rep)
            return
    except Exception as e:  # noqa: BLE001
        res.fail(cid, 'sub-raised-where-subn-succeeded:' + e.__class__.__name__, f'src={src!r}\n{e!r}', params, rep)
        return
    if rname == 'def->wrapper' and ref.unique:  # a second substitution on the substituted result must still be sound
        try:
            root.sub(M.MName(ctx=ast.Load), 'n(__FST_)')
        except Exception as e:  # noqa: BLE001
            res.fail(cid, 'second-sub-raised:' + e.__class__.__name__, f'after first={root.src!r}\n{e!r}', params, rep)
            return
        bad = live_vs_parse(root, 'Module')
        if bad:
            res.fail(cid, 'C01-after-second-sub', f'src={src!r}\n{bad}', params, rep)
            return
    res.state(root.src)
    if ref.unique:
        res.nontriv(cid)
    res.outcomes['ok'] += 1
    res.sample({'program': src, 'rule': rname, 'settings': {k: str(v) for k, v in st.items()}, 'result': root.src, 'counts': [unique, total]})


RULE_NAMES = ['name->log', 'binop->f', 'binop-swap', 'call-unwrap', 'expr-identity', 'list-slice', 'dict-mid', 'if-swap', 'stmt-identity',
              'def->wrapper',
              'call-args-tail', 'call-_args-tail', 'call-_args-init', 'genexp->list', 'genexp->or', 'name->par', 'name-x-ctx', 'args-identity', 'name->str', 'if->two-stmts', 'seq->as', 'value->or-as',
              'binop->g-tail', 'call->wrap-tail', 'list->lists', 'name->str2']
STRING_SLOT_RULES = ('name->str', 'name->str2')


def shards(tier):
    return [{'prog': i, 'rule': r} for i in range(len(PROGS)) for r in RULE_NAMES]


def run_shard(desc, tier, res):
    import fst
    import fst.match as M
    for st in settings(desc['rule']):
        run_case(fst, M, desc['prog'], desc['rule'], st, res)


def replay(rep, res):
    import fst
    import fst.match as M
    run_case(fst, M, rep['prog'], rep['rule'], rep['st'], res)
