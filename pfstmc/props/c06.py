"""C06 - every reported location denotes exactly the text of its node.

enum engine over all nodes of programs x layouts (read-only); judge: CPython positions + token stream.
Also all token-boundary rectangles for the by-location search functions against a brute-force scan."""
from __future__ import annotations

import ast

from .. import extents as X
from .. import oracle as O
from ..programs import PROGRAMS as BASE
from .c11 import EXTRA
from .c14 import TRICKY, in_loc

ID = 'C06'
LEVEL = 'model_checking'
TECHNIQUE = ('bounded exhaustive enumeration of (program, node) and (program, query rectangle) on the real location code, '
             'judged by CPython positions and a token-stream extents oracle / brute-force scan')
LEVEL_TEXT = ('every node of 100+ programs (all layouts incl. multi-byte text, redundant parentheses, comments, continuation '
              'lines) is checked for loc/bloc/byte coordinates/src/pars()/operator and computed locations/containment; every '
              'rectangle with token-boundary corners is checked for find_loc/find_in_loc/find_contains_loc against brute force')
LEVEL_NOTE = ('trusted: CPython ast positions, tokenize; ownership rules for parentheses from docs d09 (solo call arg, solo class '
              'base, solo class-pattern, tuple/genexp own their parentheses); with-items whose parentheses may belong to the '
              'with statement are not judged for pars()')
RULE = ('enum: case = (program, node path, query) or (program, rectangle, function); non-trivial = distinct located nodes / '
        'rectangles with a non-None answer; states = distinct (program, node); traces = answers compared with the oracle')
ASSUMPTIONS = ['read-only', 'brute force for find_* ranges over the nodes of walk("loc") (validated by C14)']
BOUNDS = {'quick': '145 programs; every node; extents of the roots of 468 undelimited multi-line fragments; the same laws on every tree reached by one edit (comment put, replace, remove, insert) after all cacheable queries; rectangles with token-boundary corners on programs <= 40 tokens',
          'thorough': 'quick + rectangles with corners at token boundaries +-1 + corpus sweep of /repo/src/fst/*.py (nodes only)'}

PARS = [
    "x = (a) + ((b)) * (c,)",
    "f((a)); g((b), c); h(i for i in j); k((i for i in j)); m(*(a)); n(k=(v))",
    "class C((B)): pass\nclass D((B), E): pass\nclass F(B): pass",
    "with (a): pass\nwith (a) as b: pass\nwith (a, b): pass\nwith (a as b, c): pass\nwith ((a)): pass",
    "match (s):\n    case (a): pass\n    case C((a)): pass\n    case C(a): pass\n    case ((a) | (b)): pass\n    case [(a), (b)]: pass",
    "r = ((yield)); s = (x := 1); t = ((a, b)); u = (a, b)[(0)]; v = ((lambda: (0)))",
    "for (i) in ((j)): (k)\nwhile (a): pass\nif ((a)): pass\nassert (a), (b)\ndel (a), (b)\nreturn_ = (a) if (b) else (c)",
    "x = ( # c\n a # d\n )\ny = (\n  (b)\n)",
    "é = (ü) + ('ñ') ; ö = ( é )\nf('é', (ü), k=(ö))",
    "@(d)\ndef f(a=(1), *b, c=((2)), **e) -> (r): pass\nl = lambda a=(1): (a)",
    "x = [(a) for (a) in (b) if (c)]\ny = {(k): (v) for k, v in (z)}",
    "a[(b)] = c[(d):(e), (f)]\ng = h.i((j)).k",
    "print(f'{(a)} {(b)!r:>{(w)}}')",
    "try: pass\nexcept (E): pass\nexcept (A, B) as e: pass\nraise (E) from (c)",
    "def f():\n    return (a)\n    yield (b)\n    await (c)",
]
LOCS = [
    "x = a if b else c\ny = a  if  b  else  c",
    "v = [i for i in j if k if l for m in n]\nw = {a: b async for a, b in c}",
    "with a as b, c as d, (e): pass\nasync def f():\n    async with g as h: pass",
    "match s:\n    case 1 if g: pass  # c1\n    case [a, *b] | {1: c, **d}:\n        pass\n        pass",
    "@d1\n@d2(\n  a)\nclass C: pass  # cm\n\n@e\ndef f(): pass",
    "def f(): pass\ndef g( ): pass\ndef h(a, b = 1, ): pass\ndef i(\n  a,\n  b\n): pass\ndef j[T](a): pass\ndef k[T: (int, str)](a, *, b): pass",
    "l1 = lambda: 0\nl2 = lambda a: 0\nl3 = lambda a, *b, c=1, **d: 0\nl4 = lambda *, a: 0",
    "a += b; a -= b; a *= b; a //= b; a **= b; a >>= b; a @= b",
    "x = not a; y = - b; z = ~c; w = + d; v = not (not e)",
    "r = a < b <= c is not d not in e is f in g != h == i",
    "s = a and b or c and not d",
    "é = ü + ö * ä  # ß\nñ = 'é' 'ü' \"ö\"\nδ = f'{é} {ü!r}'",
    "import a.b.c as d, e\nfrom . import f as g\nfrom ..h import (i, j as k,)",
    "global a, b\nnonlocal_ = 1\ntype X[T, *U, **V] = T",
    "try:\n    a\nexcept* E as e:\n    b\nelse:\n    c\nfinally:\n    d  # cm",
    "if a:\n    b\nelif c:\n    d  # c1\nelse:\n    e  # c2",
    "x = a[b:c:d]; y = a[:, ::2]; z = a[b, c:d]",
    "f(a, *b, k=c, **d)(e)(f=g)",
    "def f(a: int = 1, /, b: str = 's', *c: int, d: int = 2, **e: int) -> int: pass",
    "x = (a +\n     b) * \\\n    c",
    "def f[T, U: (int, str)](a, b=1): pass\ndef g[*A, B: (int)]( x ): pass\nclass K[T, U: (a, b)](B): pass",
    "x = f('a',\n      'é', b)\ny = [é,\n  'üü', z]\nw = ('ß'\n     'long ascii text here')",
    "v = ('é', #é\n  b,\n   'öö')\nδδ = {\n 'k': 'é'}",
    "match s:\n    case 1:\n        f(\"\"\"a\nb\"\"\", [\n            c, d])\n    case 2:\n        x = '''é\n  ü'''; y = (1,\n          2)",
    "def f():\n    s = \"\"\"x\ny\"\"\" + g(a,\n              b)\n    return s",
    "try:\n    pass\nexcept E:\n    t = '''1\n2''', [3,\n        4]",
    "names = ('é', b, c,)\nm = ['ü', d, e, ]\nk = {'ß': 1, 'x': 2, }\nf('é', g, h,)",
    "del á, b, c\nglobal é, x, y\nimport ñ, o, p\nwith ü as v, w as z,: pass" if False else "del á, b, c\nglobal é, x, y\nimport ñ, o, p",
]
MULTILINE = [  # constructs whose shared delimiters span lines (solo generator arguments, undelimited tuples in subscripts)
    "t = sum(\n    x*x\n    for x in xs\n)\nu = any(x\n  for x in xs)",
    "r = x[a,\n  'é', b]\nq = y[\n  'üü',\n  c\n]",
    "f(i\n  for i in 'é'\n  if i)(j for\n j in k)",
    "class C(B,\n   metaclass=M\n): pass\n@d(a for a\n  in b)\ndef g(): pass",
]
FSTRDBG = [  # containers inside self-documenting f-string fields (their text is mirrored in a hidden constant)
    "print(f\"{lookup(lo, hi, default=None)=}\")",
    "s = f'{[a, b, c] = } {d = !r}'\nt = f\"{ {k: v, **w} = }\"",
]
DECOS = [  # several decorators with nested calls above a def / class (edits inside one of them keep the line count)
    "@app.route(prefix('/users'), methods=['GET'])\n@login_required\n@cache(60)\ndef view(): pass",
    "class K:\n    @d1(a(b), c)\n    @d2\n    class I(B): x = 1",
]
MLFIRST = [  # list-valued fields whose FIRST element spans several lines (the special slice parse modes scan past it)
    "with open(p,\n     'r') as s, open(d) as o: pass",
    "x = [i for i in f(\n  a) if i for j in k]",
    "def f[T: (\n int), *U](): pass",
    "@a(\n  b)\n@c\ndef g(): pass",
    "a[\n 0] = b = c",
    "try: pass\nexcept (A,\n  B): pass\nexcept C: pass",
    "match s:\n case [1,\n  2]: pass\n case _: pass",
    "f(g(\n  1), *h, k=2)\nimport a.\\\n b as c, d",
    "global a, b, c, d, e\ndef f():\n    nonlocal p, q, r, s\n    del t, u[0], v.w, x",
]
MLELEM = [  # single elements of the special parse modes that span lines themselves (keyword values, parameters, aliases, items)
    "f(a=(1,\n 2), b=[\nc, d], **{\n'k': v})\nclass K(m=(\n M)): pass",
    "def f(a: (\n int) = (2,\n 3), *b: [\n c]): pass\nwith (yield\n x) as (p,\n q): pass\nfrom m import (a as\n b)",
]
CMTOPS = [  # comments that contain the characters of the operator which follows on the next line
    "t = (a  # a - b + c\n     - b)\nu = (c  # * ** // %\n     ** d)\nv = [e  # << >> < >\n     << f]",
    "w = (g  # and or not\n     and h  # or\n     or i)\nx = (j  # < <= is not in\n     is not k  # not in\n     not in l)\ny = (-  # - ~\n     m)",
]
PARS2 = [  # parentheses of a callee / subscripted value / attribute value next to the delimiters of the call itself, by number of arguments
    "(f)(a); ((f))(a); (f)(); (f)(a, b); (f)(a, k=v); (f)(k=v); (f)(*a); (f)(**k); (a or b)(c); (lambda: x)(y); (f)((a)); (f)(i for i in j)",
    "(v)[i]; ((v))[(i)]; (v)[a:b]; (v).a; ((v).a)(b); (f)(a)(b); (f)((a))((b)); (yield)(a); (await_)(a)",
    "class K((B)): pass\nclass L((B), m=M): pass\nclass N(m=(M)): pass\nmatch s:\n    case C((a)): pass\n    case C(k=(a)): pass\n    case (C)(a): pass" if False else
    "class K((B)): pass\nclass L((B), m=M): pass\nclass N(m=(M)): pass\nmatch s:\n    case C((a)): pass\n    case C(k=(a)): pass",
]
PROGS = BASE + EXTRA + TRICKY + PARS + LOCS + MULTILINE + FSTRDBG + DECOS + MLFIRST + MLELEM + CMTOPS + PARS2
for _p in PROGS:
    ast.parse(_p)


def expected_pars(S, tree, parents, node):
    """(n, (start, end)) of the grouping parentheses belonging to `node`, or None when not judged."""
    par, field = parents[id(node)]
    s, e = S.span(node)
    enc = S.enclosing(s, e)
    n = len(enc)
    if isinstance(par, ast.withitem) or (isinstance(par, ast.With) or isinstance(par, ast.AsyncWith)):
        return None  # parentheses may belong to the with statement
    if isinstance(par, ast.Call) and field == 'args' and len(par.args) + len(par.keywords) == 1:
        n -= 1 if n else 0
    elif isinstance(par, ast.ClassDef) and field == 'bases' and len(par.bases) + len(par.keywords) == 1:
        n -= 1 if n else 0
    elif isinstance(par, ast.MatchClass) and field == 'patterns' and len(par.patterns) + len(par.kwd_patterns) == 1:
        n -= 1 if n else 0
    if n <= 0:
        return 0, (s, e)
    return n, enc[n - 1]


def check_program(fst, pi, src, tier, res, rects=True, root=None, tag='', rep=None):
    """root=None: a tree freshly built from src. Otherwise a live (edited) tree whose current source is src: the same location
    laws hold for it."""
    try:
        S = X.Src(src)
        tree = ast.parse(src)
    except SyntaxError:
        return
    if root is None:
        root = fst.FST(src, 'exec')
    cidp = f'C06/p{pi}/' + tag
    rep = rep or {'prog': pi}
    parents = {}
    for p in ast.walk(tree):
        for f_, v in ast.iter_fields(p):
            for c in (v if isinstance(v, list) else [v]):
                if isinstance(c, ast.AST):
                    parents[id(c)] = (p, f_)
    in_pattern_expr = set()
    for p in ast.walk(tree):
        if isinstance(p, ast.pattern):
            for c in ast.iter_child_nodes(p):
                if isinstance(c, ast.expr):
                    for d in ast.walk(c):
                        in_pattern_expr.add(id(d))
    in_ftstr = set()
    for p in ast.walk(tree):
        if isinstance(p, ast.JoinedStr):
            for d in ast.walk(p):
                in_ftstr.add(id(d))

    def bad(cid, sym, detail):
        res.fail(cidp + cid, sym, f'src={src!r}\n{detail}', {'prog': pi}, rep)

    from ..fstnav import node_at
    for path, node in O.iter_nodes(tree):
        ps = O.path_str(path)
        f = node_at(root, path)
        res.evals += 1
        res.transitions += 1
        res.state(pi, ps)
        cls = node.__class__.__name__
        if hasattr(node, 'lineno'):
            s, e = S.span(node)
            want = S.loc4(s, e)
            res.traces += 1
            got = tuple(f.loc) if f.loc is not None else None
            if got != want:
                bad(ps + '/loc', 'loc-differs-from-cpython', f'{cls}: got={got} want={want}')
                continue
            if (f.lineno, f.col_offset, f.end_lineno, f.end_col_offset) != (node.lineno, node.col_offset, node.end_lineno,
                                                                            node.end_col_offset):
                bad(ps + '/bytepos', 'byte-coordinates-differ-from-cpython',
                    f'{cls}: got={(f.lineno, f.col_offset, f.end_lineno, f.end_col_offset)}')
                continue
            if (f.ln, f.col, f.end_ln, f.end_col) != want:
                bad(ps + '/lncol', 'ln-col-accessors-differ', f'{cls}')
                continue
            try:  # the text read back through the location is the node's text (from the node and from the root, as text and as lines)
                g = (f.get_src(*want), root.get_src(*want), '\n'.join(f.get_src(*want, as_lines=True)))
            except Exception as ex:  # noqa: BLE001
                g = repr(ex)
            if g != (src[s:e],) * 3:
                bad(ps + '/get_src', 'get_src-at-loc-not-node-text', f'{cls}: got={g!r} want={src[s:e]!r}')
                continue
            if not isinstance(node, (ast.stmt, ast.excepthandler)) and f.src != src[s:e] and id(node) not in in_ftstr:
                bad(ps + '/src', 'src-not-text-at-loc', f'{cls}: got={f.src!r} want={src[s:e]!r}')
                continue
            res.nontriv(pi, ps, 'loc')
            # bloc
            if isinstance(node, (ast.stmt, ast.excepthandler)):
                bs, be = s, e
                if (hasattr(node, 'body') or hasattr(node, 'cases')) and not isinstance(node, ast.Module):  # block statement
                    decos = getattr(node, 'decorator_list', None)
                    if decos:
                        d0 = S.span(decos[0])[0]
                        d0 = S.expand(d0, S.span(decos[0])[1])[0]
                        i = S.tok_before(d0)
                        bs = S.toks[i][0] if i >= 0 and S.toks[i][2] == '@' else bs
                    eln = S.lc(e)[0]
                    line = S.lines[eln]
                    cm = [c for c in S.comments if S.lc(c[0])[0] == eln and c[0] >= e]
                    if cm:
                        be = S.off(eln, len(line))
                wantb = S.loc4(bs, be)
                if tuple(f.bloc) != wantb:
                    bad(ps + '/bloc', 'bloc-differs-from-definition', f'{cls}: got={tuple(f.bloc)} want={wantb}')
                    continue
                if f.src != src[bs:be]:  # the source of a statement is the text at its bounding location
                    bad(ps + '/src', 'src-not-text-at-bloc', f'{cls}: got={f.src!r} want={src[bs:be]!r}')
                    continue
            # pars
            if isinstance(node, (ast.expr, ast.pattern)) and id(node) not in in_ftstr:
                exp = expected_pars(S, tree, parents, node)
                try:
                    r = f.pars()
                    gotp = (r.n, tuple(r))
                except Exception as ex:  # noqa: BLE001
                    bad(ps + '/pars', 'pars-raised', repr(ex))
                    continue
                if exp is not None:
                    n, (a, b) = exp
                    if isinstance(node, (ast.Starred, ast.Slice)) or id(node) in in_pattern_expr or \
                            isinstance(node, ast.MatchStar):
                        n, (a, b) = 0, (s, e)  # documented: not parenthesizable themselves
                    wantp = (n, S.loc4(a, b))
                    res.traces += 1
                    if gotp != wantp:
                        bad(ps + '/pars', 'pars-differs-from-token-oracle', f'{cls}: got={gotp} want={wantp}')
                        continue
                    if n:
                        res.nontriv(pi, ps, 'pars')
        elif isinstance(node, (ast.operator, ast.unaryop, ast.cmpop)):
            par = O.get_path(tree, path[:-1])  # CPython shares operator singletons: identify by path, not by id
            idx = path[-1][1] if isinstance(par, ast.Compare) else None
            sp = X.operator_span(S, par, node, idx)
            if sp is not None:
                want = S.loc4(*sp)
                got = tuple(f.loc) if f.loc is not None else None
                res.traces += 1
                if isinstance(par, ast.AugAssign) and got is not None and got != want:
                    want2 = S.loc4(sp[0], sp[1] - 1)  # '+' of '+='
                    if got == want2:
                        want = want2
                if got != want:
                    bad(ps + '/oploc', 'operator-loc-not-exactly-the-operator', f'{cls}: got={got} want={want}')
                    continue
                res.nontriv(pi, ps, 'op')
        elif isinstance(node, ast.comprehension):
            ts, _ = S.span(node.target)
            ts = S.expand(*S.span(node.target))[0]
            i = S.tok_before(ts)
            ok = i >= 0 and S.toks[i][2] == 'for'
            if ok:
                st = S.toks[i][0]
                if i > 0 and S.toks[i - 1][2] == 'async':
                    st = S.toks[i - 1][0]
                last = (node.ifs[-1] if node.ifs else node.iter)
                en = S.expand(*S.span(last))[1]
                want = S.loc4(st, en)
                res.traces += 1
                if tuple(f.loc) != want:
                    bad(ps + '/loc', 'comprehension-loc-not-its-tokens', f'got={tuple(f.loc)} want={want}')
                    continue
                res.nontriv(pi, ps, 'comp')
        elif isinstance(node, ast.match_case):
            ps_, _ = S.expand(*S.span(node.pattern))
            i = S.tok_before(ps_)
            if i >= 0 and S.toks[i][2] == 'case':
                want = S.loc4(S.toks[i][0], S.span(node.body[-1])[1])
                res.traces += 1
                if tuple(f.loc) != want:
                    bad(ps + '/loc', 'match_case-loc-not-its-tokens', f'got={tuple(f.loc)} want={want}')
                    continue
                res.nontriv(pi, ps, 'case')
        elif isinstance(node, ast.arguments):
            par, field = parents[id(node)]
            if isinstance(par, (ast.FunctionDef, ast.AsyncFunctionDef)):
                # the '(' that follows the name / type parameter brackets
                i = S.tok_after(S.span(par)[0])
                while S.toks[i][2] != 'def':
                    i += 1
                i += 2
                if S.toks[i][2] == '[':
                    depth = 0
                    while True:
                        depth += S.toks[i][2] in '[(' and 1 or 0
                        depth -= S.toks[i][2] in '])' and 1 or 0
                        i += 1
                        if depth == 0:
                            break
                assert S.toks[i][2] == '(', S.toks[i]
                depth, j = 0, i
                while True:
                    depth += S.toks[j][2] in ('(', '[', '{') and 1 or 0
                    depth -= S.toks[j][2] in (')', ']', '}') and 1 or 0
                    if depth == 0:
                        break
                    j += 1
                inner = (S.toks[i][1], S.toks[j][0])
                got = tuple(f.loc) if f.loc is not None else None
                res.traces += 1
                if got != S.loc4(*inner):  # exactly the text between the delimiters
                    bad(ps + '/loc', 'arguments-loc-not-between-delimiters', f'got={got} want={S.loc4(*inner)}')
                    continue
                res.nontriv(pi, ps, 'args')
            elif isinstance(par, ast.Lambda):
                ls, le = S.span(par)
                i = S.tok_after(ls)
                bs_ = S.expand(*S.span(par.body))[0]
                j = S.tok_before(bs_)
                got = tuple(f.loc) if f.loc is not None else None
                res.traces += 1
                kids = [S.span(c) for c in ast.walk(node) if hasattr(c, 'lineno')]
                if S.toks[i][2] != 'lambda' or S.toks[j][2] != ':':
                    pass
                elif got is not None:
                    gs, ge = S.off(got[0], got[1]), S.off(got[2], got[3])
                    lo = min((k[0] for k in kids), default=gs)
                    hi = max((k[1] for k in kids), default=ge)
                    if not (S.toks[i][1] <= gs <= lo and hi <= ge <= S.toks[j][0]):
                        bad(ps + '/loc', 'lambda-arguments-loc-not-between-keyword-and-colon', f'got={got}')
                        continue
                elif kids:
                    bad(ps + '/loc', 'lambda-arguments-loc-missing', '')
                    continue
    # containment and sibling order (located nodes)
    for p in ast.walk(tree):
        pf = getattr(_fst_of(root, tree, p), 'loc', None) if False else None
    # by pfst's own locs: children inside parents, located siblings disjoint and ordered
    allf = list(root.walk('loc'))
    for fnode in allf:
        if isinstance(fnode.a, (ast.JoinedStr, ast.FormattedValue)):
            continue  # f-string internals (debug '=' constants, nested strings) are a separate sub-alphabet
        loc = fnode.bloc  # decorators live outside loc but inside the bounding location
        kids = [k for k in fnode.walk('loc', self_=False, recurse=False)]
        prev_end = None
        for k in kids:
            kl = k.loc
            res.traces += 1
            if (kl[0], kl[1]) < (loc[0], loc[1]) or (kl[2], kl[3]) > (loc[2], loc[3]):
                bad(f'{fnode!r}/contain', 'child-not-inside-parent', f'parent={fnode!r} child={k!r}')
                break
            if prev_end is not None and (kl[0], kl[1]) < prev_end:
                bad(f'{fnode!r}/siblings', 'siblings-overlap-or-out-of-order', f'parent={fnode!r} child={k!r}')
                break
            prev_end = (kl[2], kl[3])
    if not rects or len(S.toks) > 40 or any(isinstance(n, ast.JoinedStr) for n in ast.walk(tree)):
        return
    deco_spans = []
    for n in ast.walk(tree):
        for d in getattr(n, 'decorator_list', ()) or ():
            a_, b_ = S.expand(*S.span(d))
            i_ = S.tok_before(a_)
            deco_spans.append((S.toks[i_][0] if i_ >= 0 else a_, b_))
    # by-location search vs brute force
    cand = [root] + [x for x in root.walk('loc', self_=False)]
    locs = [tuple(x.loc) for x in cand]
    depth = {}
    for x in cand:
        d, p = 0, x.parent
        while p is not None:
            d += 1
            p = p.parent
        depth[id(x)] = d
    corners = sorted({o for t in S.toks for o in (t[0], t[1])} |
                     ({o + d for t in S.toks for o in (t[0], t[1]) for d in (-1, 1) if 0 <= o + d <= len(src)}
                      if tier == 'thorough' else set()))
    for i, a in enumerate(corners):
        for b in corners[i + 1:]:
            r = S.lc(a) + S.lc(b)
            rs, re_ = (r[0], r[1]), (r[2], r[3])
            res.evals += 1
            res.transitions += 7
            containing = [k for k, l in enumerate(locs) if (l[0], l[1]) <= rs and re_ <= (l[2], l[3])]
            inside = [k for k, l in enumerate(locs) if rs <= (l[0], l[1]) and (l[2], l[3]) <= re_]
            exact = [k for k in containing if locs[k] == r]
            # contains(True): deepest containing (lowest exact if exact)
            def deepest(ks):
                return max(ks, key=lambda k: (depth[id(cand[k])], k)) if ks else None
            want_c = deepest(containing)
            non_exact = [k for k in containing if locs[k] != r]
            want_cf = deepest(non_exact)
            want_top = min(exact, key=lambda k: depth[id(cand[k])]) if exact else want_c
            want_in = min(inside) if inside else None
            res.traces += 1
            got = {
                'contains': root.find_contains_loc(*r), 'contains_noexact': root.find_contains_loc(*r, False),
                'contains_top': root.find_contains_loc(*r, 'top'), 'in': root.find_in_loc(*r),
            }
            wants = {'contains': want_c, 'contains_noexact': want_cf, 'contains_top': want_top, 'in': want_in}
            okall = True
            for name, g in got.items():
                w = wants[name]
                wn = cand[w] if w is not None else None
                if g is not wn:
                    indeco = any(x <= a and b <= y for x, y in deco_spans)
                    res.fail(cidp + f'rect{r}/{name}', 'search-differs-from-brute-force',
                             f'src={src!r}\nrect={r} got={g!r} want={wn!r}', {'prog': pi, 'rect_in_decorator': indeco,
                                                                              'function': name}, rep)
                    okall = False
                    break
            if not okall:
                continue
            # find_loc composition (docstring definition)
            for top in (False, True):
                fl = root.find_loc(*r, top)
                if exact:
                    w = cand[want_top] if top else cand[deepest(exact)]
                else:
                    cont = cand[want_c] if want_c is not None else None
                    if cont is None:
                        w = cand[want_in] if want_in is not None else None
                    else:
                        sub = [k for k in inside if _is_under(cand[k], cont)]
                        w = cand[min(sub)] if sub else cont
                if fl is not w:
                    bad(f'rect{r}/find_loc{top}', 'search-differs-from-brute-force', f'rect={r} got={fl!r} want={w!r}')
                    break
            if containing or inside:
                res.nontriv(pi, r)


def _is_under(x, anc):
    while x is not None:
        if x is anc:
            return True
        x = x.parent
    return False


def _fst_of(root, tree, node):
    return None


# ---- roots of fragment parses: undelimited multi-line sequences (parsed by pfst inside synthetic delimiters) -------------------
FRAG_ELTS = {'expr': ['a', '"é"', 'b[0]', '*s'], 'pattern': ['a', '"é"', 'b.c', '*_']}
FRAG_SEPS = [', ', ',\n', ',\n  ', ',  # é\n', ' ,\n\n']


def frag_cases(kind):
    import itertools
    for n in (2, 3):
        for es in itertools.product(FRAG_ELTS[kind], repeat=n):
            if sum(e.startswith('*') for e in es) > 1:
                continue
            for seps in itertools.product(FRAG_SEPS, repeat=n - 1):
                text, spans = '', []
                for k, e in enumerate(es):
                    spans.append((len(text), len(text) + len(e)))
                    text += e + (seps[k] if k < n - 1 else '')
                yield text, spans


def check_fragments(fst, kind, part, res):
    """Locations of a fragment root and its elements, judged by the text alone: the root of an undelimited sequence spans first
    to last element, every element's location is exactly its text, byte coordinates are the UTF-8 offsets of the char columns."""
    for ci, (text, spans) in enumerate(frag_cases(kind)):
        if ci % part[1] != part[0]:
            continue
        lines = text.split('\n')
        starts = [0]
        for l in lines:
            starts.append(starts[-1] + len(l) + 1)

        def lc(off):
            ln = max(i for i in range(len(lines)) if starts[i] <= off)
            return ln, off - starts[ln]

        def loc4(a, b):
            return lc(a) + lc(b)

        for mode in (('expr', 'Tuple') if kind == 'expr' else ('pattern',)):
            cid = f'C06/frag/{kind}/{text!r}/mode={mode}'
            rep = {'frag': kind, 'text': text}
            res.evals += 1
            res.transitions += 1
            res.state(text, mode)
            try:
                root = fst.FST(text, mode)
            except Exception:  # noqa: BLE001  (acceptance is C05's business)
                res.outcomes['fragment-refused'] += 1
                continue
            kids = getattr(root.a, 'elts', None) or getattr(root.a, 'patterns', None) or []
            if len(kids) != len(spans):
                res.outcomes['fragment-other-shape'] += 1
                continue
            res.traces += 1
            checks = [('root', root, (spans[0][0], spans[-1][1]))] + [(f'elt{k}', kid.f, sp) for k, (kid, sp) in enumerate(zip(kids, spans))]
            ok = True
            for name, f, (a, b) in checks:
                want = loc4(a, b)
                got = tuple(f.loc)
                if got != want:
                    res.fail(cid + '/' + name, 'loc-differs-from-text-extent', f'fragment={text!r} mode={mode} {name}: got={got} want={want}',
                             {'mode': mode}, rep)
                    ok = False
                    break
                wb = (want[0] + 1, O.char2byte(lines[want[0]], want[1]), want[2] + 1, O.char2byte(lines[want[2]], want[3]))
                gb = (f.a.lineno, f.a.col_offset, f.a.end_lineno, f.a.end_col_offset)
                if gb != wb:
                    res.fail(cid + '/' + name, 'byte-coordinates-differ-from-text-extent',
                             f'fragment={text!r} mode={mode} {name}: got={gb} want={wb}', {'mode': mode}, rep)
                    ok = False
                    break
                if f.src != text[a:b]:
                    res.fail(cid + '/' + name, 'src-not-text-at-loc', f'fragment={text!r} mode={mode} {name}: got={f.src!r} want={text[a:b]!r}',
                             {'mode': mode}, rep)
                    ok = False
                    break
            if ok:
                res.nontriv(text, mode)
                res.outcomes['fragment-locs-ok'] += 1


DYN_KINDS = ('line_comment', 'replace', 'remove', 'insert')


def check_after_edits(fst, pi, res):
    """The location laws on trees that have just been edited: every cacheable location is queried first, one edit of a small
    alphabet is applied, then every node of the live tree is judged against CPython positions / the token oracle of the new source."""
    from .. import edits as E
    from ..explore import warm_caches
    from ..fstnav import live_vs_parse
    src = PROGS[pi]
    for op in E.enumerate_ops(src, nk=1, nks=1, forms=('src',), opts=({},), kinds=DYN_KINDS, lc_texts=('a much longer comment', None)):
        root = fst.FST(src, 'exec')
        warm_caches(root)
        try:
            E.apply(fst, root, op)
        except Exception:  # noqa: BLE001
            continue
        if root.src == src:
            continue  # nothing happened
        try:
            ast.parse(root.src)
        except SyntaxError:
            continue  # unparsable result: C01's business (positions have no meaning)
        res.outcomes['edited-tree-checked'] += 1
        check_program(fst, pi, root.src, 'quick', res, rects=False, root=root, tag='after ' + E.op_id(op) + '/',
                      rep={'prog': pi, 'after': op})


def shards(tier):
    out = [{'prog': i} for i in range(len(PROGS))]
    out += [{'dyn': i} for i in range(len(PROGS)) if len(PROGS[i]) <= 160]
    out += [{'frag': k, 'part': [r, 4]} for k in ('expr', 'pattern') for r in range(4)]
    if tier == 'thorough':
        import glob
        import os
        for f in sorted(glob.glob(os.path.join(os.environ.get('PFSTMC_REPO', '/repo'), 'src/fst/*.py'))):
            out.append({'file': f})
    return out


def run_shard(desc, tier, res):
    import fst
    if 'file' in desc:
        with open(desc['file'], encoding='utf8') as fh:
            src = fh.read()
        check_program(fst, 'file:' + desc['file'].rsplit('/', 1)[-1], src, tier, res, rects=False)
        return
    if 'frag' in desc:
        check_fragments(fst, desc['frag'], desc['part'], res)
        return
    if 'dyn' in desc:
        check_after_edits(fst, desc['dyn'], res)
        return
    check_program(fst, desc['prog'], PROGS[desc['prog']], tier, res)
    res.sample({'program': PROGS[desc['prog']]})


def replay(rep, res):
    import fst
    if 'after' in rep:
        from .. import edits as E
        from ..explore import warm_caches
        root = fst.FST(PROGS[rep['prog']], 'exec')
        warm_caches(root)
        E.apply(fst, root, rep['after'])
        print(repr(root.src))
        check_program(fst, rep['prog'], root.src, 'quick', res, rects=False, root=root, tag='after/', rep=rep)
        return
    if 'frag' in rep:
        global frag_cases
        orig = frag_cases
        frag_cases = lambda kind: [c for c in orig(kind) if c[0] == rep['text']]  # noqa: E731
        try:
            check_fragments(fst, rep['frag'], [0, 1], res)
        finally:
            frag_cases = orig
        return
    check_program(fst, rep['prog'], PROGS[rep['prog']], 'quick', res)
