"""C05 - parsing is lossless and agrees with CPython's parser in every parse mode.

enum engine: (a) whole programs in exec mode; (b) every extractable fragment of every program x every mode that should
accept it x decorations, expected = sub-tree of the full CPython parse re-based to the fragment; (c) the single-token
edit neighbourhood of every fragment, validity decided by CPython through the embedding table."""
from __future__ import annotations

import ast
import copy
import re
import textwrap
import tokenize

from .. import extents as X
from .. import oracle as O
from .c06 import PROGS

ID = 'C05'
LEVEL = 'model_checking'
TECHNIQUE = ('bounded exhaustive enumeration of (program, fragment, parse mode, decoration) and of the single-token-edit '
             'neighbourhood of every fragment on the real parser front-end, judged by CPython ast.parse through an embedding table')
LEVEL_TEXT = ('every node of 166 programs is cut out by CPython positions and parsed by pfst in every mode that should accept it '
              '(with leading/trailing comments, blank lines, continuation) and compared incl. all positions with the re-based '
              'sub-tree; every single-token deletion/duplication/replacement of every fragment is classified by CPython and '
              'pfst must reject exactly the invalid ones')
LEVEL_NOTE = ('trusted: CPython ast.parse/tokenize; the embedding table (fragment inside the smallest full construct) defines '
              'validity per mode; ctx is masked when a fragment is cut out of a Store/Del position')
RULE = ('enum: case = (program, node path, mode, decoration) or (fragment, mode, token edit); non-trivial = distinct accepted '
        'fragments compared with the reference + distinct invalid texts rejected; states = distinct fragment texts')
ASSUMPTIONS = ['one interpreter (3.12)']
BOUNDS = {'quick': '135 programs + 468 multi-line undelimited tuple / sequence-pattern fragments x 4 modes; position accessors of every node; all positioned nodes + comprehension/withitem/match_case/arguments/operators; 5 decorations; '
                   'token-edit neighbourhood (delete, duplicate, replace by and insert each of 12 tokens) on single-line fragments of <= 16 tokens',
          'thorough': 'all programs, neighbourhood on fragments <= 30 tokens, + corpus files whole-program check'}

_CTX = re.compile(r"ctx=(Store|Del)\(\)")


def dpos(a):
    return _CTX.sub('ctx=Load()', ast.dump(a, include_attributes=True))


def rebase(node, dline, dcol_first, first_line, dedent=0, keep=()):
    """Copy of node with positions relative to a fragment that starts at (first_line, dcol) of the original.
    `keep` = original line numbers that were not dedented (continuation lines of multi-line strings)."""
    n = copy.deepcopy(node)
    for a in ast.walk(n):
        if hasattr(a, 'lineno'):
            for attr_l, attr_c in (('lineno', 'col_offset'), ('end_lineno', 'end_col_offset')):
                ln = getattr(a, attr_l)
                c = getattr(a, attr_c)
                setattr(a, attr_c, c - (dcol_first if ln == first_line else 0 if ln in keep else dedent))
                setattr(a, attr_l, ln - dline)
    return n


def shift(node, dl, first_dc=0):
    n = copy.deepcopy(node)
    for a in ast.walk(n):
        if hasattr(a, 'lineno'):
            if a.lineno == 1:
                a.col_offset += first_dc
            if a.end_lineno == 1:
                a.end_col_offset += first_dc
            a.lineno += dl
            a.end_lineno += dl
    return n


# mode table: category -> modes that must accept a fragment of that category
def modes_for(node, parent, field):
    cls = node.__class__.__name__
    if isinstance(node, ast.stmt):
        return ['stmt', cls]
    if isinstance(node, ast.expr):
        if isinstance(node, ast.Slice):
            return ['expr_slice', 'Slice', 'expr_all']
        if isinstance(node, ast.Starred):
            return ['expr', 'Starred', 'expr_all', 'expr_arglike']
        if isinstance(node, (ast.FormattedValue, ast.Interpolation if hasattr(ast, 'Interpolation') else ast.FormattedValue)):
            return []
        if isinstance(node, ast.Tuple) and any(isinstance(e, (ast.Slice,)) for e in node.elts):
            return ['expr_slice', 'expr_all']
        if isinstance(node, ast.Tuple) and any(isinstance(e, ast.Starred) for e in node.elts) and isinstance(parent, ast.Subscript):
            return ['expr_slice', 'expr_all']
        return ['expr', cls, 'expr_all', 'expr_arglike', 'expr_slice']
    if isinstance(node, ast.pattern):
        if isinstance(node, ast.MatchStar):
            return ['pattern', 'MatchStar']
        return ['pattern', cls]
    if isinstance(node, ast.arg):
        return ['arg']
    if isinstance(node, ast.keyword):
        return ['keyword']
    if isinstance(node, ast.alias):
        if isinstance(parent, ast.Import):
            return ['alias', 'Import_name']
        return ['alias', 'ImportFrom_name'] if node.name != '*' else ['ImportFrom_name']
    if isinstance(node, ast.excepthandler):
        return ['ExceptHandler']
    if isinstance(node, ast.type_param):
        return ['type_param', cls]
    if isinstance(node, ast.comprehension):
        return ['comprehension']
    if isinstance(node, ast.withitem):
        return ['withitem']
    if isinstance(node, ast.match_case):
        return ['match_case']
    if isinstance(node, ast.operator):
        return ['operator', cls]
    if isinstance(node, ast.unaryop):
        return ['unaryop', cls]
    if isinstance(node, ast.cmpop):
        return ['cmpop', cls]
    if isinstance(node, ast.boolop):
        return ['boolop', cls]
    return []


def fragment_span(S, tree, path, node, parent):
    """(start, end) char offsets of the exact text of the node, or None."""
    if hasattr(node, 'lineno'):
        s, e = S.span(node)
        decos = getattr(node, 'decorator_list', None)
        if decos:  # a decorated definition starts at its first '@'
            d0 = S.expand(*S.span(decos[0]))[0]
            i = S.tok_before(d0)
            if i >= 0 and S.toks[i][2] == '@':
                s = S.toks[i][0]
        return s, e
    if isinstance(node, ast.comprehension):
        ts = S.expand(*S.span(node.target))[0]
        i = S.tok_before(ts)
        if i < 0 or S.toks[i][2] != 'for':
            return None
        st = S.toks[i - 1][0] if i > 0 and S.toks[i - 1][2] == 'async' else S.toks[i][0]
        return st, S.expand(*S.span(node.ifs[-1] if node.ifs else node.iter))[1]
    if isinstance(node, ast.withitem):
        if isinstance(parent, (ast.With, ast.AsyncWith)) and len(parent.items) == 1 and node.optional_vars is None:
            return S.span(node.context_expr)
        st = S.expand(*S.span(node.context_expr))[0]
        en = S.expand(*S.span(node.optional_vars or node.context_expr))[1]
        if node.optional_vars is None and len(parent.items) > 1:
            # parentheses may belong to the with statement: use the bare expression when it is first/last
            st, en = S.span(node.context_expr)
        return st, en
    if isinstance(node, ast.match_case):
        ps_ = S.expand(*S.span(node.pattern))[0]
        i = S.tok_before(ps_)
        if i < 0 or S.toks[i][2] != 'case':
            return None
        return S.toks[i][0], S.span(node.body[-1])[1]
    if isinstance(node, (ast.operator, ast.unaryop, ast.cmpop)):
        idx = path[-1][1] if isinstance(parent, ast.Compare) else None
        return X.operator_span(S, parent, node, idx)
    return None


DECOS = ('bare', 'lead_comment', 'trail_comment', 'blank_lines', 'trail_newline')


def decorate(text, deco, is_stmtlike):
    """(new text, line shift) -- decorations that must not change the parse result except line numbers."""
    if deco == 'bare':
        return text, 0
    if deco == 'lead_comment':
        return '# lead é\n' + text, 1
    if deco == 'trail_comment':
        return text + '  # trail', 0
    if deco == 'blank_lines':
        return '\n\n' + text + '\n\n', 2
    if deco == 'trail_newline':
        return text + '\n', 0
    raise ValueError(deco)


def accessor_mismatch(live, ref):
    """The parse result as the user reads it: every node's lineno / col_offset / end_lineno / end_col_offset through its FST
    node must be the CPython values (the raw AST attributes are compared separately)."""
    for a, r in zip(ast.walk(live), ast.walk(ref)):
        if hasattr(r, 'lineno') and hasattr(a, 'f'):
            try:
                got = (a.f.lineno, a.f.col_offset, a.f.end_lineno, a.f.end_col_offset)
            except Exception as e:  # noqa: BLE001
                return f'{r.__class__.__name__} at line {r.lineno}: accessor raised {e!r}'
            want = (r.lineno, r.col_offset, r.end_lineno, r.end_col_offset)
            if got != want:
                return f'{r.__class__.__name__}: accessors={got} cpython={want}'
    return None


def pfst_parse(fst, text, mode):
    try:
        f = fst.FST(text, mode)
        return f, None
    except Exception as e:  # noqa: BLE001
        return None, e


def run_program(fst, pi, src, tier, res, neighbourhood):
    cidp = f'C05/p{pi}/'
    rep = {'prog': pi}
    tree = ast.parse(src)
    # (a) whole program
    res.evals += 1
    res.transitions += 1
    f, e = pfst_parse(fst, src, 'exec')
    res.traces += 1
    if e is not None:
        res.fail(cidp + 'exec', 'valid-program-rejected', f'src={src!r}\n{e!r}', {}, rep)
        return
    if f.src != src:
        res.fail(cidp + 'exec', 'source-changed-by-parse', f'src={src!r}\ngot={f.src!r}', {}, rep)
        return
    if O.dump_pos(f.a) != O.dump_pos(tree):
        res.fail(cidp + 'exec', 'tree-differs-from-cpython', f'src={src!r}\n' + O.first_diff(O.dump_pos(f.a), O.dump_pos(tree)), {}, rep)
        return
    bad = accessor_mismatch(f.a, tree)
    if bad:
        res.fail(cidp + 'exec', 'position-accessors-differ-from-cpython', f'src={src!r}\n{bad}', {}, rep)
        return
    res.nontriv(pi, 'exec')
    try:
        S = X.Src(src)
    except SyntaxError:
        return
    in_ftstr = set()
    for p in ast.walk(tree):
        if isinstance(p, ast.JoinedStr):
            for d in ast.walk(p):
                if d is not p:
                    in_ftstr.add(id(d))
    seen_frag = set()
    for path, node in O.iter_nodes(tree):
        if not path or id(node) in in_ftstr:
            continue
        parent = O.get_path(tree, path[:-1])
        field = path[-1][0]
        modes = modes_for(node, parent, field)
        if isinstance(parent, ast.AugAssign) and field == 'op':
            continue  # the token is '+=', not an operator fragment on its own
        if isinstance(node, ast.If) and field == 'orelse' and isinstance(parent, ast.If) and len(parent.orelse) == 1 and \
                src[S.span(node)[0]:].startswith('elif'):
            continue  # an elif is not a statement on its own
        if not modes:
            continue
        sp = fragment_span(S, tree, path, node, parent)
        if sp is None:
            continue
        s, e_ = sp
        text = src[s:e_]
        ln0, col0 = S.lc(s)
        dedent = 0
        keep = set()
        is_stmtlike = isinstance(node, (ast.stmt, ast.excepthandler, ast.match_case))
        if is_stmtlike and col0 > 0:
            if '\n' in text:
                lines = text.split('\n')
                if any(l.strip() and not l.startswith(' ' * col0) and not l.startswith('\t' * col0) for l in lines[1:]):
                    continue
                keep = set()  # lines that begin inside a multi-line string token keep their text
                for t in S.toks:
                    if s <= t[0] < e_ and t[3] in (tokenize.STRING, tokenize.FSTRING_MIDDLE) and '\n' in src[t[0]:t[1]]:
                        l1, l2 = S.lc(t[0])[0], S.lc(t[1])[0]
                        keep.update(range(l1 + 2, l2 + 2))  # 1-based numbers of the continuation lines
                if any(t[3] == tokenize.FSTRING_MIDDLE for t in S.toks if s <= t[0] < e_) and keep:
                    continue
                if any(l.strip() and not l.startswith(' ' * col0) for k, l in enumerate(lines[1:], ln0 + 2) if k not in keep):
                    continue
                text = '\n'.join([lines[0]] + [l if k in keep else l[col0:] for k, l in enumerate(lines[1:], ln0 + 2)])
                dedent = col0  # the removed prefix of the other lines is spaces: bytes == chars
        bcol0 = O.char2byte(S.lines[ln0], col0)
        if hasattr(node, 'lineno') or isinstance(node, (ast.comprehension, ast.withitem, ast.match_case)):
            want0 = rebase(node, ln0, bcol0, ln0 + 1, dedent, keep)
        else:
            want0 = copy.deepcopy(node)
        ps = O.path_str(path)
        for mode in modes:
            for deco in DECOS:
                if deco != 'bare' and (mode in ('operator', 'unaryop', 'cmpop', 'boolop') or mode == node.__class__.__name__):
                    continue
                if deco == 'lead_comment' and isinstance(node, ast.alias):
                    continue  # alias modes use a line-continued wrapper; Import forbids a comment before a name: unjudged
                dtext, dl = decorate(text, deco, is_stmtlike)
                key = (dtext, mode)
                if key in seen_frag:
                    continue
                seen_frag.add(key)
                cid = f'{cidp}{ps}/mode={mode}/{deco}'
                res.evals += 1
                res.transitions += 1
                res.state(dtext)
                f, e = pfst_parse(fst, dtext, mode)
                res.traces += 1
                if e is not None:
                    res.fail(cid, 'valid-fragment-rejected:' + e.__class__.__name__,
                             f'fragment={dtext!r} mode={mode}\nfrom src={src!r}\n{e!r}', {'mode': mode, 'deco': deco}, rep)
                    continue
                if f.src != dtext:
                    res.fail(cid, 'source-changed-by-parse', f'fragment={dtext!r} mode={mode}\ngot={f.src!r}',
                             {'mode': mode, 'deco': deco}, rep)
                    continue
                got = f.a
                if mode == 'stmt' and isinstance(got, ast.Module):
                    pass
                want = shift(want0, dl)
                if got.__class__ is not want.__class__:
                    res.fail(cid, 'fragment-parsed-to-other-node-kind',
                             f'fragment={dtext!r} mode={mode}\ngot={got.__class__.__name__} want={want.__class__.__name__}',
                             {'mode': mode, 'deco': deco}, rep)
                    continue
                if dpos(got) != dpos(want):
                    res.fail(cid, 'fragment-tree-differs-from-embedded-subtree',
                             f'fragment={dtext!r} mode={mode}\nfrom src={src!r}\n' + O.first_diff(dpos(got), dpos(want)),
                             {'mode': mode, 'deco': deco}, rep)
                    continue
                bad = accessor_mismatch(got, want)
                if bad:
                    res.fail(cid, 'position-accessors-differ-from-cpython', f'fragment={dtext!r} mode={mode}\n{bad}',
                             {'mode': mode, 'deco': deco}, rep)
                    continue
                res.nontriv(dtext, mode)
                res.outcomes['fragment-ok'] += 1
        if neighbourhood and (hasattr(node, 'lineno') or isinstance(node, (ast.withitem, ast.comprehension))) and not is_stmtlike:
            token_neighbourhood(fst, text, node, parent, modes[0], cidp + ps, rep, res, tier)
        if neighbourhood and isinstance(node, (ast.FunctionDef, ast.AsyncFunctionDef)):  # the parameter list has no position of its own
            ptext = _params_text(S, src, node)
            if ptext:
                token_neighbourhood(fst, ptext, node.args, node, 'arguments', cidp + ps + '.args', rep, res, tier)
    list_fragments(fst, S, tree, src, cidp, rep, res)


LISTS = {  # (parent classes, field) -> (modes, attribute of the special slice container)
    'cases': ((ast.Match,), ['_match_cases'], 'cases'),
    'handlers': ((ast.Try, ast.TryStar), ['_ExceptHandlers'], 'handlers'),
    'names': ((ast.Import, ast.ImportFrom), ['_aliases'], 'names'),
    'items': ((ast.With, ast.AsyncWith), ['_withitems'], 'items'),
    'generators': ((ast.ListComp, ast.SetComp, ast.DictComp, ast.GeneratorExp), ['_comprehensions'], 'generators'),
    'type_params': ((ast.FunctionDef, ast.AsyncFunctionDef, ast.ClassDef, ast.TypeAlias), ['_type_params'], 'type_params'),
    'body': ((ast.stmt, ast.excepthandler, ast.match_case, ast.Module), ['stmts', 'exec'], 'body'),
    'orelse': ((ast.stmt,), ['stmts'], 'body'),
    'finalbody': ((ast.stmt,), ['stmts'], 'body'),
}


def list_fragments(fst, S, tree, src, cidp, rep, res):
    """Whole list-valued fields as fragments for the special-slice modes: expected elements are the re-based children."""
    for path, node in O.iter_nodes(tree):
        for field, spec in LISTS.items():
            pcls, modes, attr = spec
            if not isinstance(node, pcls) or field not in getattr(node, '_fields', ()):
                continue
            kids = getattr(node, field)
            if not kids or not isinstance(kids, list):
                continue
            if field == 'names' and isinstance(node, ast.Import):
                modes = ['_aliases', '_Import_names']
            elif field == 'names':
                modes = ['_aliases', '_ImportFrom_names']
            if field == 'items' and len(kids) > 1 and any(k.optional_vars is None for k in (kids[0], kids[-1])):
                continue  # parentheses may belong to the with statement
            sp0 = fragment_span(S, tree, path + ((field, 0),), kids[0], node)
            sp1 = fragment_span(S, tree, path + ((field, len(kids) - 1),), kids[-1], node)
            if sp0 is None or sp1 is None:
                continue
            s, e_ = sp0[0], sp1[1]
            if field == 'orelse' and len(kids) == 1 and isinstance(kids[0], ast.If) and src[s:].startswith('elif'):
                continue
            text = src[s:e_]
            ln0, col0 = S.lc(s)
            keep = set()
            dedent = 0
            if '\n' in text and col0 > 0:
                if field in ('names', 'items', 'generators', 'type_params'):
                    pass  # expression-like lists: no dedent, later lines keep their columns
                else:
                    lines = text.split('\n')
                    for t in S.toks:
                        if s <= t[0] < e_ and t[3] in (tokenize.STRING, tokenize.FSTRING_MIDDLE) and '\n' in src[t[0]:t[1]]:
                            l1, l2 = S.lc(t[0])[0], S.lc(t[1])[0]
                            keep.update(range(l1 + 2, l2 + 2))
                    if any(t[3] == tokenize.FSTRING_MIDDLE for t in S.toks if s <= t[0] < e_) and keep:
                        continue
                    if any(l.strip() and not l.startswith(' ' * col0) for k, l in enumerate(lines[1:], ln0 + 2) if k not in keep):
                        continue
                    text = '\n'.join([lines[0]] + [l if k in keep else l[col0:] for k, l in enumerate(lines[1:], ln0 + 2)])
                    dedent = col0
            elif col0 > 0 and field in ('body', 'orelse', 'finalbody', 'cases', 'handlers') and S.lines[ln0][:col0].strip():
                continue  # starts in the middle of a line (after 'if a:' or ';')
            bcol0 = O.char2byte(S.lines[ln0], col0)
            want = [rebase(k, ln0, bcol0, ln0 + 1, dedent, keep) for k in kids]
            for mode in modes:
                cid = f'{cidp}{O.path_str(path)}.{field}[:]/mode={mode}'
                res.evals += 1
                res.transitions += 1
                res.state(text, mode)
                f, e = pfst_parse(fst, text, mode)
                res.traces += 1
                if e is not None:
                    res.fail(cid, 'valid-fragment-rejected:' + e.__class__.__name__,
                             f'fragment={text!r} mode={mode}\nfrom src={src!r}\n{e!r}', {'mode': mode}, rep)
                    continue
                if f.src != text:
                    res.fail(cid, 'source-changed-by-parse', f'fragment={text!r} mode={mode}\ngot={f.src!r}', {'mode': mode}, rep)
                    continue
                got = getattr(f.a, attr, None)
                if not isinstance(got, list) or len(got) != len(want):
                    res.fail(cid, 'fragment-parsed-to-other-node-kind', f'fragment={text!r} mode={mode}\ngot={f.a!r}',
                             {'mode': mode}, rep)
                    continue
                g, w = '|'.join(dpos(x) for x in got), '|'.join(dpos(x) for x in want)
                if g != w:
                    res.fail(cid, 'fragment-tree-differs-from-embedded-subtree',
                             f'fragment={text!r} mode={mode}\nfrom src={src!r}\n' + O.first_diff(g, w), {'mode': mode}, rep)
                    continue
                res.nontriv(text, mode)
                res.outcomes['list-fragment-ok'] += 1
                # list modes whose grammar fixes the first token: anything put in front that is not that keyword makes the text
                # invalid for the mode, whatever the parse wrapper would make of it
                lead = {'_comprehensions': ('for', 'async'), 'comprehension': ('for', 'async'), '_comprehension_ifs': ('if',), '_ExceptHandlers': ('except',),
                        '_match_cases': ('case',), '_decorator_list': ('@',)}.get(mode)
                if lead:
                    for junk in ('.x ', '(y) ', 'or z ', '[0] ', ', ', 'x ', '] + [', ') or ('):
                        v = junk + text
                        res.evals += 1
                        res.transitions += 1
                        res.traces += 1
                        f2, e2 = pfst_parse(fst, v, mode)
                        if e2 is None:
                            res.fail(f'{cid}/junk={junk!r}', 'invalid-fragment-accepted',
                                     f'text={v!r} mode={mode}\nparsed to {ast.dump(f2.a)[:300]}', {'mode': mode, 'multiline': '\n' in v}, rep)
                        else:
                            res.outcomes['invalid-rejected'] += 1


REPL = [')', '(', ',', ':', '=', '*', '**', 'as', 'if', 'for', '\n', '#', ';']
# two-sided injections that close whatever synthetic opening delimiter a parse wrapper may have put in front of the fragment and
# open a new one for the wrapper's closing delimiter: balanced for a tokenizer that sees wrapper + fragment, not valid as a fragment
ESCAPES = [')(', '][', '}{', ') (', '] [', ').x(', '].x[', ')()(', ']()[', ') as (', '): pass\nwith (', ') if (', '], [', '), (', ')=(',
           '\\', '\\b', ') -> (', '):\n def g(', '):\n  pass\n  def h(', ')][(', ')](', ')] = x[(']


def embed_valid(text, mode):
    """Is `text` a valid fragment for `mode` according to CPython? Returns the embedded sub-tree (positions re-based)
    or None. Only modes of the embedding table below are supported."""
    tmpl = {
        'expr': [('(\n{}\n)', lambda m: m.body[0].value, 1), ('[\n{}\n]', lambda m: _solo(m.body[0].value.elts), 1)],
        'pattern': [('match _:\n case (\n{}\n): pass', lambda m: m.body[0].cases[0].pattern, 2),
                    ('match _:\n case [\n{}\n]: pass', lambda m: _solo(m.body[0].cases[0].pattern.patterns), 2)],
        'arg': [('def f(\n{}\n): pass', lambda m: _solo_arg(m.body[0].args), 1),
                ('def f(*\n{}\n): pass', lambda m: _solo_vararg(m.body[0].args), 1)],  # '*vararg: *starred'
        'keyword': [('f(\n{}\n)', lambda m: _solo_kw(m.body[0].value), 1)],
        'alias': [('from . import (\n{}\n)', lambda m: _solo(m.body[0].names), 1),
                  ('from . import \\\n{}', lambda m: _solo(m.body[0].names) if len(m.body) == 1 else None, 1),
                  ('import \\\n{}', lambda m: _solo(m.body[0].names) if len(m.body) == 1 else None, 1)],
        'withitem': [('with (\n{}\n): pass', lambda m: _solo(m.body[0].items), 1)],
        'expr_slice': [('x[\n{}\n]', lambda m: m.body[0].value.slice, 1)],
        'type_param': [('type X[\n{}\n] = _', lambda m: _solo(m.body[0].type_params), 1)],
        'comprehension': [('[_ \n{}\n]', lambda m: _solo(m.body[0].value.generators), 1)],
        'arguments': [],
    }.get(mode)
    if tmpl is None:
        return 'unsupported'
    if mode == 'arguments':  # no position of its own: valid iff the wrapper stays exactly what it was around it
        full = 'def f(\n' + text + '\n): pass'
        try:
            m = ast.parse(full)
        except (SyntaxError, ValueError):
            return None
        d = m.body[0] if len(m.body) == 1 else None
        if not isinstance(d, ast.FunctionDef) or d.name != 'f' or d.returns or len(d.body) != 1 or not isinstance(d.body[0], ast.Pass):
            return None
        if (d.body[0].lineno, d.body[0].col_offset) != (full.count('\n') + 1, 3):
            return None
        return d.args
    try:
        S = X.Src(text)
        toks_ = S.toks
    except SyntaxError:  # a fragment that spans lines need not tokenize on its own (indentation): tokenize it inside parentheses
        try:
            S = X.Src('(\n' + text + '\n)')
        except SyntaxError:
            return None
        toks_ = [(a - 2, b - 2, c, d) for a, b, c, d in S.toks[1:-1]]
        if len(S.toks) < 2 or S.toks[0][2] != '(' or S.toks[-1][2] != ')' or S.toks[-1][0] != len(text) + 3:
            return None
    if not toks_:
        return None
    first, last = toks_[0][0], toks_[-1][1]
    for t, get, dl in tmpl:
        full = t.format(text)
        try:
            m = ast.parse(full)
            node = get(m)
        except (SyntaxError, ValueError, IndexError, AttributeError, TypeError):
            continue
        if node is None:
            continue
        # the embedded node's token extent must be exactly the fragment (rejects `a) + (b`)
        FS = X.Src(full)
        pre = t.index('{}')
        if isinstance(node, ast.comprehension):
            s = full.rfind('for', 0, FS.span(node.target)[0])
            s = full.rfind('async', 0, s) if node.is_async else s
            e = FS.expand(*FS.span((node.ifs or [node.iter])[-1]))[1]
        elif hasattr(node, 'lineno'):
            s, e = FS.span(node)
        else:  # withitem
            s = FS.span(node.context_expr)[0]
            s = FS.expand(*FS.span(node.context_expr))[0]
            e = FS.expand(*FS.span(node.optional_vars or node.context_expr))[1]
            if node.optional_vars is None:  # 'with (a):' - the wrapper's parentheses became grouping parentheses of the lone expression:
                s, e = FS.span(node.context_expr)  # take the outermost grouping parentheses that still lie inside the fragment
                for ps, pe in FS.enclosing(s, e):
                    if ps >= pre + first and pe <= pre + last:
                        s, e = ps, pe
        lo, hi = pre + first, pre + last
        if isinstance(node, (ast.Tuple, ast.MatchSequence)) and (s, e) != (lo, hi):
            # an undelimited sequence inherits the wrapper's delimiters
            kids = node.elts if isinstance(node, ast.Tuple) else node.patterns
            if kids and FS.expand(*FS.span(kids[0]))[0] == lo and (full[hi - 1] == ',' or FS.expand(*FS.span(kids[-1]))[1] == hi):
                return node
            continue
        if (s, e) == (lo, hi) or FS.expand(s, e) == (lo, hi) and not isinstance(node, ast.Starred):
            return node
    return None


def _cpython_valueerror(text):
    try:
        ast.parse('(\n' + text + '\n)')
    except ValueError:
        return True
    except SyntaxError:
        return False
    return False


def _solo(xs):
    return xs[0] if len(xs) == 1 else None


def _solo_arg(a):
    if a.posonlyargs or a.kwonlyargs or a.vararg or a.kwarg or a.defaults or len(a.args) != 1:
        return None
    return a.args[0]


def _solo_vararg(a):
    if a.posonlyargs or a.kwonlyargs or a.args or a.kwarg or a.defaults or a.kw_defaults:
        return None
    return a.vararg


def _solo_kw(c):
    if c.args or len(c.keywords) != 1:
        return None
    return c.keywords[0]


def _params_text(S, src, node):
    """Text between the parentheses of a one-line def header (None if empty or spanning lines)."""
    i = S.tok_after(S.span(node)[0])
    depth = 0
    while i < len(S.toks) and not (S.toks[i][2] == '(' and depth == 0):
        depth += {'[': 1, ']': -1}.get(S.toks[i][2], 0)
        i += 1
    if i >= len(S.toks):
        return None
    j, depth = i + 1, 1
    while j < len(S.toks) and depth:
        depth += {'(': 1, '[': 1, '{': 1, ')': -1, ']': -1, '}': -1}.get(S.toks[j][2], 0)
        j += 1
    text = src[S.toks[i][1]:S.toks[j - 1][0]]
    if not text.strip() or '\n' in text or '#' in text:
        return None
    return text.strip()


def token_neighbourhood(fst, text, node, parent, mode, cidp, rep, res, tier):
    if mode not in ('expr', 'pattern', 'arg', 'keyword', 'alias', 'withitem', 'expr_slice', 'type_param', 'comprehension', 'arguments'):
        return
    try:
        S = X.Src(text)
    except SyntaxError:
        return
    maxtok = 16 if tier == 'quick' else 30
    if not (1 <= len(S.toks) <= maxtok):
        return
    variants = set()
    multiline = '\n' in text  # fragments that span lines: only what can stand in front of / behind the whole fragment
    for i, t in enumerate(() if multiline else S.toks):
        variants.add(text[:t[0]] + text[t[1]:])                 # delete
        variants.add(text[:t[1]] + ' ' + t[2] + text[t[1]:])    # duplicate
        for r in REPL:
            variants.add(text[:t[0]] + r + text[t[1]:])         # replace
            variants.add(text[:t[1]] + ' ' + r + text[t[1]:])   # insert after
    if multiline:
        for r in (',', ' ,', '\n,', '\n ,', ' # c\n,', ';', ' if x', ' as x', '=1', ': x'):
            variants.add(text + r)
        for r in (',', ', \n', '*', '(', 'x = '):
            variants.add(r + text)
    for i, t in enumerate(() if multiline else S.toks):  # wrapper escapes after every token (and in place of every separator-like token)
        for r in ESCAPES:
            variants.add(text[:t[1]] + r + text[t[1]:])
            if t[2] in (',', '=', ':', '.', 'as', 'in', '|'):
                variants.add(text[:t[0]] + r + text[t[1]:])
    for r in ESCAPES + [', ', ' = ', ': ']:  # something complete in front of / behind the whole fragment
        variants.add('x' + r + text)
        variants.add(text + r + 'x')
    variants = {v for v in variants if not v.rstrip(' ').endswith('\\')}  # a backslash as the very last character continues into whatever follows the fragment: not judged
    variants.discard(text)
    for v in sorted(variants):
        emb = embed_valid(v, mode)
        if emb == 'unsupported':
            return
        cid = f'{cidp}/mode={mode}/edit={v!r}'
        res.evals += 1
        res.transitions += 1
        f, e = pfst_parse(fst, v, mode)
        res.traces += 1
        res.state(v)
        if emb is None:
            if e is None:
                res.fail(cid, 'invalid-fragment-accepted', f'text={v!r} mode={mode}\nparsed to {ast.dump(f.a)[:300]}',
                         {'mode': mode, 'multiline': '\n' in v}, rep)
            elif not isinstance(e, SyntaxError):
                if isinstance(e, ValueError) and _cpython_valueerror(v):
                    res.outcomes['cpython-itself-raises-ValueError'] += 1  # 3.12.1 f-string quirk, propagated unchanged
                    continue
                res.fail(cid, 'invalid-fragment-wrong-exception:' + e.__class__.__name__, f'text={v!r} mode={mode}\n{e!r}',
                         {'mode': mode}, rep)
            else:
                res.nontriv(v, mode, 'rejected')
                res.outcomes['invalid-rejected'] += 1
        else:
            if e is not None:
                res.fail(cid, 'valid-fragment-rejected:' + e.__class__.__name__, f'text={v!r} mode={mode}\n{e!r}\n'
                         f'cpython embeds it as {ast.dump(emb)[:200]}', {'mode': mode}, rep)
            else:
                g = _CTX.sub('ctx=Load()', ast.dump(f.a))
                w = _CTX.sub('ctx=Load()', ast.dump(emb))
                if g != w:
                    res.fail(cid, 'fragment-tree-differs-from-embedded-subtree', f'text={v!r} mode={mode}\n' + O.first_diff(g, w),
                             {'mode': mode}, rep)
                else:
                    res.outcomes['valid-accepted'] += 1
                    res.nontriv(v, mode, 'accepted')


# ---- undelimited sequences: the fragments pfst has to parse inside synthetic delimiters --------------------------------------
USEQ_ELTS = ['a', '"é"', 'b[0]', '*s']
USEQ_PELTS = ['a', '"é"', 'b.c', '*_']
USEQ_SEPS = [', ', ',\n', ',\n  ', ',  # é\n', ' ,\n\n']
USEQ_EXPR_MODES = ['expr', 'Tuple', 'expr_slice', 'expr_all', 'all']


USEQ_TAILS = [',', '\n,', '\n ,', '\n  ,', '\n   ,', '\n    ,', '  # é\n ,', '\n\n ,', ' ,\n']   # trailing comma of a one-element tuple, on its own line at every column up to the element's end


def useq_texts(elts, tier):
    import itertools
    for e in elts + ['*abc', 'é']:  # one element and its comma
        for tail in USEQ_TAILS:
            yield e + tail
    for n in (2, 3):
        for es in itertools.product(elts, repeat=n):
            if sum(e.startswith('*') for e in es) > 1:
                continue
            for seps in itertools.product(USEQ_SEPS, repeat=n - 1):
                if all(sp == ', ' for sp in seps):
                    continue  # single-line: already covered by the program fragments
                if tier == 'quick' and n == 3 and len(set(seps)) > 1 and ', ' not in seps:
                    continue
                yield ''.join(e + sp for e, sp in zip(es, seps)) + es[-1]


def run_useq(fst, kind, part, tier, res):
    """Multi-line (not backslash-continued) undelimited tuples / sequence patterns as fragments. Reference: the same text inside
    CPython brackets ('x[...]' keeps the Tuple undelimited; 'case [...]' for patterns, own extent = first..last element)."""
    texts = list(useq_texts(USEQ_ELTS if kind == 'expr' else USEQ_PELTS, tier))
    for ti, text in enumerate(texts):
        if ti % part[1] != part[0]:
            continue
        rep = {'useq': kind, 'text': text}
        if kind == 'expr':
            try:
                ref = ast.parse('x[' + text + ']').body[0].value.slice
            except SyntaxError:
                continue
            if not isinstance(ref, ast.Tuple):
                continue
            want = rebase(ref, 0, 2, 1)
            modes = USEQ_EXPR_MODES
        else:
            pre = 'match s:\n case ['
            try:
                ref = ast.parse(pre + text + ']: pass').body[0].cases[0].pattern
            except SyntaxError:
                continue
            want = rebase(ref, 1, len(' case ['), 2)
            k0, k1 = want.patterns[0], want.patterns[-1]
            want.lineno, want.col_offset, want.end_lineno, want.end_col_offset = k0.lineno, k0.col_offset, k1.end_lineno, k1.end_col_offset
            toks = O.sig_tokens(text)
            if toks and toks[-1].string == ',':  # a trailing comma belongs to the undelimited sequence (as CPython reports for 'case a,:')
                lines_ = text.split('\n')
                want.end_lineno, want.end_col_offset = toks[-1].end[0], O.char2byte(lines_[toks[-1].end[0] - 1], toks[-1].end[1])
            modes = ['pattern', 'MatchSequence']
        for mode in modes:
            if mode == 'all' and O.try_parse(text) is not None:
                continue  # the text is also a sequence of statements, which is what mode 'all' tries first
            cid = f'C05/useq/{kind}/{text!r}/mode={mode}'
            res.evals += 1
            res.transitions += 1
            res.state(text, mode)
            f, e = pfst_parse(fst, text, mode)
            res.traces += 1
            if e is not None:
                res.fail(cid, 'valid-fragment-rejected:' + e.__class__.__name__, f'fragment={text!r} mode={mode}\n{e!r}', {'mode': mode}, rep)
                continue
            if f.src != text:
                res.fail(cid, 'source-changed-by-parse', f'fragment={text!r} mode={mode}\ngot={f.src!r}', {'mode': mode}, rep)
                continue
            if f.a.__class__ is not want.__class__:
                res.fail(cid, 'fragment-parsed-to-other-node-kind', f'fragment={text!r} mode={mode}\ngot={f.a.__class__.__name__}',
                         {'mode': mode}, rep)
                continue
            if dpos(f.a) != dpos(want):
                res.fail(cid, 'fragment-tree-differs-from-embedded-subtree',
                         f'fragment={text!r} mode={mode}\n' + O.first_diff(dpos(f.a), dpos(want)), {'mode': mode}, rep)
                continue
            res.nontriv(text, mode)
            res.outcomes['useq-fragment-ok'] += 1


def shards(tier):
    out = [{'prog': i} for i in range(len(PROGS))]
    out += [{'useq': k, 'part': [r, 4]} for k in ('expr', 'pattern') for r in range(4)]
    if tier == 'thorough':
        import glob
        import os
        for f in sorted(glob.glob(os.path.join(os.environ.get('PFSTMC_REPO', '/repo'), 'src/fst/*.py'))):
            out.append({'file': f})
    return out


def run_shard(desc, tier, res):
    import fst
    if 'file' in desc:
        with open(desc['file'], encoding='utf8') as fh:
            src = fh.read()
        f, e = pfst_parse(fst, src, 'exec')
        res.evals += 1
        res.traces += 1
        name = desc['file'].rsplit('/', 1)[-1]
        if e is not None or f.src != src or O.dump_pos(f.a) != O.dump_pos(ast.parse(src)):
            res.fail(f'C05/file:{name}', 'file-parse-differs', repr(e), {}, None)
        return
    if 'useq' in desc:
        run_useq(fst, desc['useq'], desc['part'], tier, res)
        return
    pi = desc['prog']
    run_program(fst, pi, PROGS[pi], tier, res, neighbourhood=True)
    res.sample({'program': PROGS[pi]})


def replay(rep, res):
    import fst
    if 'useq' in rep:
        global useq_texts
        orig = useq_texts
        useq_texts = lambda elts, tier: [rep['text']]  # noqa: E731
        try:
            run_useq(fst, rep['useq'], [0, 1], 'thorough', res)
        finally:
            useq_texts = orig
        return
    run_program(fst, rep['prog'], PROGS[rep['prog']], 'quick', res, True)
