"""C10 - raw source edits are equivalent to re-parsing the whole file, or change nothing.

enum engine over every source rectangle (character granularity, bounded span) x replacement texts on small programs;
judge: CPython's from-scratch parse of the spliced text. Also reparse() on every node and a depth-2 pass."""
from __future__ import annotations

import ast

from .. import oracle as O
from ..core import CaseTimeout, deadline

ID = 'C10'
LEVEL = 'model_checking'
TECHNIQUE = ('bounded exhaustive enumeration of (program, source rectangle, replacement text) and depth-2 edit sequences on '
             'the real put_src(action=reparse)/reparse(), each execution judged against a from-scratch CPython parse')
LEVEL_TEXT = ('every rectangle up to the span bound at character granularity x 17 replacement texts on 20 programs (plus coordinate encodings, raw puts incl. to=, stand-alone roots) is executed '
              'on the real code and compared (source, structure, all positions, success <=> validity) with ast.parse of the '
              'spliced text; failures are checked for atomicity')
LEVEL_NOTE = 'trusted: CPython ast.parse as the definition of validity and of the tree; bounded programs/spans/texts'
RULE = ('enum: case = (program, start offset, end offset, text); non-trivial = distinct cases where the new source differs '
        'from the old; states = distinct (source, positioned dump) seen before/after; traces = executions compared with ast.parse')
ASSUMPTIONS = ['Module-rooted trees', 'validity == ast.parse accepts the whole new source']
BOUNDS = {
    'quick': '20 programs, all rectangles with span <= 6 chars, 17 texts; reparse() on every node; depth 2 on 4 programs '
             'with span <= 2 and 6 texts; rectangles = extent of every node / run of sibling statements (any length) x 9 texts',
    'thorough': '20 programs, all rectangles with span <= 40 chars, 17 texts; depth 2 on all programs with span <= 3',
}

PROGRAMS = [
    "a = b",
    "a = b\nc = d",
    "if a:\n    b\nc",
    "if a:\n    b\nelif c:\n    d\nelse:\n    e",
    "def f(a):\n    return a\nx = f(1)",
    "for i in j:\n    k\nelse:\n    l",
    "try:\n    a\nexcept E:\n    b\nfinally:\n    c",
    "match a:\n    case 1:\n        b\n    case _:\n        c",
    "x = 1; y = 2\nz = 3",
    "@d\nclass C(B):\n    x = 1",
    "é = 'ü'; ñ = é\nö = ñ",
    "while a:\n    if b:\n        c\n    d",
    "with a as b:\n    c  # cm\nd",
    "x = [a,\n     b]\ny = (c)",
    "if a: b\nelse: c",
    "def f():\n    '''d'''\n    if a:\n        return 1\n    elif b:\n        pass",
    "async def f():\n    await a\nimport m",
    "try:\n    a\nexcept* E:\n    b",
    "def f():\n    if a:\n        b\n    elif c:\n        d\n    elif e:\n        g\n    else:\n        h",
    "class C:\n    @d\n    def m(s): return 1\n    x = 'é'; y = (\n        2)",
    # blanks that are content, not trivia: inside string literals, f-string text / format specs, lines of a triple-quoted string
    "s = 'a b' + f'{x} y {z:> 4}'\nt = \'\'\'l1\n l2\'\'\'",
    # block headers whose last child is not their last field in source order / contains the character that ends a header
    "class K(m=M, *bs[1:]):\n    x = 1\nclass L(m={a: b}, *c[d:e]): pass",
    "def f(a=lambda: 0, *b: t[1:], **c: {1: 2}) -> r[3:]:\n    return a\nwith x[1:] as y, z: pass",
    # a comment holding the header's closing character between the last header child and the end of the header
    "if (a  # note: here\n    ):\n    b\nwhile (c  # x: y\n       ) :  # z:\n    d",
]
TEXTS = ['', ' ', 'x', '\n', ':', '#', '(', ')', 'pass', '\n    ', '=', 'if ', ';', ',', 'é', '\\\n', '"']
TEXTS_BLANK = ['   ', '\t']  # only for the program whose blanks are content (program 20)
TEXTS_EXTENT = ['', 'x', 'pass', 'p; q', '(p,\n q)', 'é', '#']
for _p in PROGRAMS:
    ast.parse(_p)

SPAN = {'quick': 6, 'thorough': 40}


def off2lc(src, off):
    ln = src.count('\n', 0, off)
    col = off - (src.rfind('\n', 0, off) + 1)
    return ln, col


def shards(tier):
    out = []
    for i, p in enumerate(PROGRAMS):
        step = 8 if tier == 'quick' else 2
        for s in range(0, len(p) + 1, step):
            out.append({'kind': 'rect', 'prog': i, 'from': s, 'to': min(s + step, len(p) + 1)})
        out.append({'kind': 'reparse', 'prog': i})
        out.append({'kind': 'extent', 'prog': i})
        out.append({'kind': 'rawput', 'prog': i})
        out.append({'kind': 'coords', 'prog': i})
        out.append({'kind': 'rawto', 'prog': i})
    out += [{'kind': 'rootkind', 'prog': 0, 'root': r} for r in range(len(ROOTS))]
    d2 = (1, 3, 8, 14) if tier == 'quick' else range(len(PROGRAMS))
    for i in d2:
        p = PROGRAMS[i]
        for s in range(0, len(p) + 1, 4):
            out.append({'kind': 'depth2', 'prog': i, 'from': s, 'to': min(s + 4, len(p) + 1)})
    return out


def judge(root, old, pre_dump, o1, o2, text, cid, res, params, rep, exc, kind=None):
    new = old[:o1] + text + old[o2:]
    try:
        if kind is None:
            want = ast.parse(new)
        elif kind == 'stmt':  # a root that is one statement: the new source has to be exactly one statement (of whatever kind)
            m = ast.parse(new)
            want = m.body[0] if len(m.body) == 1 else None
        else:  # a root that is one expression: valid when CPython parses it as exactly that inside parentheses (C05's embedding oracle)
            from .c05 import embed_valid
            want = embed_valid(new, 'expr')
        valid = want is not None
    except (SyntaxError, ValueError, RecursionError, MemoryError):
        want, valid = None, False
    res.traces += 1
    res.state(old, pre_dump)
    desc = f'old={old!r}\nrect=[{o1}:{o2}] {off2lc(old, o1)}..{off2lc(old, o2)} removed={old[o1:o2]!r} text={text!r}\nnew={new!r}'
    if exc is not None:
        try:
            now = (root.src, O.dump_pos(root.a))
        except Exception as e:  # noqa: BLE001
            res.fail(cid, 'tree-unreadable-after-raise', f'{desc}\n{e!r}', params, rep)
            return None
        if now != (old, pre_dump):
            what = 'source' if now[0] != old else 'tree'
            res.fail(cid, f'raised-but-{what}-changed', f'{desc}\nraised={exc!r}\nnow={now[0]!r}', params, rep)
            return None
        if valid:
            res.outcomes['valid-refused'] += 1
            res.fail(cid, 'valid-source-refused', f'{desc}\nraised={exc!r}', params, rep)
            return None
        res.outcomes['invalid-refused'] += 1
        return None
    try:
        got_src = root.src
        got = O.dump_pos(root.a)
    except Exception as e:  # noqa: BLE001
        res.fail(cid, 'tree-unreadable-after-success', f'{desc}\n{e!r}', params, rep)
        return None
    res.state(got_src, got)
    if got_src != new:
        res.fail(cid, 'source-not-the-requested-splice', f'{desc}\ngot={got_src!r}', params, rep)
        return None
    if not valid:
        res.outcomes['invalid-accepted'] += 1
        res.fail(cid, 'invalid-source-accepted', f'{desc}\ntree={O.dump(root.a)[:300]}', params, rep)
        return None
    if kind == 'expr':  # the embedded reference has the wrapper's positions: structure only
        if O.dump(root.a) != O.dump(want):
            res.fail(cid, 'tree-differs-from-full-parse', f'{desc}\n' + O.first_diff(O.dump(root.a), O.dump(want)), params, rep)
            return None
    elif got != O.dump_pos(want):
        res.outcomes['tree-mismatch'] += 1
        sym = 'tree-differs-from-full-parse' if O.dump(root.a) != O.dump(want) else 'positions-differ-from-full-parse'
        res.fail(cid, sym, f'{desc}\n' + O.first_diff(got, O.dump_pos(want)), params, rep)
        return None
    if root.a.f is not root or root.parent is not None:
        res.fail(cid, 'root-identity-lost', desc, params, rep)
        return None
    res.outcomes['ok'] += 1
    if new != old:
        res.nontriv(old, o1, o2, text)
    return new


def one_edit(fst, root, old, o1, o2, text):
    ln, col = off2lc(old, o1)
    eln, ecol = off2lc(old, o2)
    try:
        with deadline(10):
            root.put_src(text, ln, col, eln, ecol, 'reparse')
        return None
    except CaseTimeout:
        raise
    except Exception as e:  # noqa: BLE001
        return e


def run_rect(fst, pi, o1, o2, text, res, first=None):
    old0 = PROGRAMS[pi]
    root = fst.FST(old0, 'exec')
    hist = []
    old = old0
    cid = f'C10/p{pi}/'
    if first is not None:
        a1, a2, t1 = first
        e = one_edit(fst, root, old, a1, a2, t1)
        if e is not None or root.src != old[:a1] + t1 + old[a2:]:
            return False
        try:
            if O.dump_pos(root.a) != O.dump_pos(ast.parse(root.src)):
                return False  # first step already disagrees: reported by the depth-1 pass, not expanded
        except SyntaxError:
            return False
        old = root.src
        cid += f'[{a1}:{a2}]<-{t1!r}|'
        hist.append([a1, a2, t1])
    cid += f'[{o1}:{o2}]<-{text!r}'
    pre = O.dump_pos(root.a)
    res.evals += 1
    res.transitions += 1
    rep = {'prog': pi, 'hist': hist + [[o1, o2, text]]}
    params = {'prog': pi, 'depth': len(hist) + 1}
    try:
        exc = one_edit(fst, root, old, o1, o2, text)
    except CaseTimeout:
        res.fail(cid, 'hang', f'old={old!r} rect=[{o1}:{o2}] text={text!r}', params, rep)
        return False
    judge(root, old, pre, o1, o2, text, cid, res, params, rep, exc)
    res.sample({'program': old, 'rect': [o1, o2], 'text': text, 'raised': repr(exc) if exc else None})
    return True


ROOTS = [('a = 1', 'stmt'), ('if a:\n    b', 'stmt'), ('f(a, b)', 'expr'), ('[a, b]', 'expr'), ('x', 'expr'), ('a + b', 'expr')]


def run_rootkind(fst, ri, tier, res):
    """Trees whose root is a single statement or expression: a raw source edit succeeds exactly when the new whole source is valid for
    that kind of root (a second statement, or something that is no longer one expression, is not)."""
    src, mode = ROOTS[ri]
    kind = fst.FST(src, mode).a.__class__.__name__
    for o1 in range(len(src) + 1):
        for o2 in range(o1, min(len(src), o1 + 3) + 1):
            for text in TEXTS + ['\nb = 2', '; c', ', d', ' = e']:
                if o1 == o2 and not text:
                    continue
                root = fst.FST(src, mode)
                pre = O.dump_pos(root.a)
                cid = f'C10/root{ri}:{kind}/[{o1}:{o2}]<-{text!r}'
                rep = {'root': ri}
                res.evals += 1
                res.transitions += 1
                try:
                    exc = one_edit(fst, root, src, o1, o2, text)
                except CaseTimeout:
                    res.fail(cid, 'hang', '', {'rootkind': kind}, rep)
                    continue
                judge(root, src, pre, o1, o2, text, cid, res, {'rootkind': kind, 'nonmodule_root': True}, rep, exc, kind=mode)


def run_rawto(fst, pi, src, tier, res):
    """Raw one-element puts with the `to=` option: everything from the start of one expression to the end of a later one (inside the
    same statement, possibly in another container) is replaced by new code; judged like a rectangle edit against the full parse."""
    from ..fstnav import node_at
    lines = src.split('\n')
    tree = ast.parse(src)

    def off(ln, col):
        return O.offset_of(lines, ln - 1, O.byte2char(lines[ln - 1], col))
    maxspan = 16 if tier == 'quick' else 40
    from .. import extents as X
    S = X.Src(src)
    for si, stmt in enumerate(tree.body):
        exprs = [(p, n) for p, n in O.iter_nodes(stmt) if isinstance(n, ast.expr) and hasattr(n, 'lineno')
                 and S.expand(*S.span(n)) == S.span(n)]  # nodes in grouping parentheses: whose the parentheses are is C06's question
        for p1, n1 in exprs:
            a = off(n1.lineno, n1.col_offset)
            for p2, n2 in exprs:
                b = off(n2.end_lineno, n2.end_col_offset)
                if n2 is n1 or off(n2.lineno, n2.col_offset) < a or b <= off(n1.end_lineno, n1.end_col_offset) or b - a > maxspan:
                    continue
                for text in ('q', 'f(r)'):
                    path1, path2 = (('body', si),) + tuple(p1), (('body', si),) + tuple(p2)
                    cid = f'C10/p{pi}/rawto {O.path_str(path1)} .. {O.path_str(path2)} <-{text!r}'
                    rep = {'prog': pi, 'rawto': [[list(x) for x in path1], [list(x) for x in path2], text]}
                    root = fst.FST(src, 'exec')
                    pre = O.dump_pos(root.a)
                    res.evals += 1
                    res.transitions += 1
                    try:
                        with deadline(10):
                            node_at(root, path1).replace(text, raw=True, to=node_at(root, path2))
                        exc = None
                    except CaseTimeout:
                        res.fail(cid, 'hang', '', {'prog': pi}, rep)
                        continue
                    except Exception as e:  # noqa: BLE001
                        exc = e
                    if exc is not None and isinstance(exc, (NotImplementedError,)) or (exc is not None and 'to' in str(exc) and isinstance(exc, (ValueError,)) and root.src == src):
                        res.outcomes['rawto-not-supported-here'] += 1
                        continue
                    judge(root, src, pre, a, b, text, cid, res, {'prog': pi, 'rawto': True}, rep, exc)


def coord_encodings(lines, ln, col, eln, ecol):
    """Every documented way to write the same rectangle: negative line numbers count from the last line, negative columns from the
    end of their line, 'end' is the last line / the end of the line, columns beyond the end of the line are clipped."""
    n = len(lines)

    def enc_ln(v):
        return [v - n] + (['end'] if v == n - 1 else [])

    def enc_col(v, line):
        L = len(lines[line])
        return ([v - L] if v < L else ['end', L + 7]) + ([-L - 3] if v == 0 and L else [])

    out = []
    for a in enc_ln(ln):
        out.append((a, col, eln, ecol))
    for b in enc_col(col, ln):
        out.append((ln, b, eln, ecol))
    for c in enc_ln(eln):
        out.append((ln, col, c, ecol))
    for d in enc_col(ecol, eln):
        out.append((ln, col, eln, d))
    out.append((enc_ln(ln)[0], enc_col(col, ln)[0], enc_ln(eln)[0], enc_col(ecol, eln)[0]))
    return out


def run_coords(fst, pi, src, tier, res):
    """Differential: a rectangle written with negative / 'end' / over-large coordinates must do exactly what the same rectangle
    written with plain coordinates does (same exception class or same resulting source and tree). The plain form itself is judged
    against the full parse by the rectangle pass."""
    lines = src.split('\n')
    span = 8 if tier == 'quick' else 16
    for o1 in range(len(src) + 1):
        for o2 in range(o1, min(len(src), o1 + span) + 1):
            if tier == 'quick' and o2 - o1 > 3 and '\n' not in src[o1:o2]:
                continue  # quick: longer rectangles only when they span lines
            ln, col = off2lc(src, o1)
            eln, ecol = off2lc(src, o2)
            for text in ('z', ''):
                if not text and o1 == o2:
                    continue
                ref = fst.FST(src, 'exec')
                try:
                    ref.put_src(text, ln, col, eln, ecol, 'reparse')
                    want = ('ok', ref.src, O.dump_pos(ref.a))
                except Exception as e:  # noqa: BLE001
                    want = ('raised', e.__class__.__name__, None)
                for enc in coord_encodings(lines, ln, col, eln, ecol):
                    cid = f'C10/p{pi}/coords {enc!r} == {(ln, col, eln, ecol)!r} <-{text!r}'
                    res.evals += 1
                    res.transitions += 1
                    res.traces += 1
                    root = fst.FST(src, 'exec')
                    pre = O.dump_pos(root.a)
                    try:
                        with deadline(10):
                            root.put_src(text, *enc, 'reparse')
                        got = ('ok', root.src, O.dump_pos(root.a))
                    except CaseTimeout:
                        res.fail(cid, 'hang', '', {'prog': pi}, None)
                        continue
                    except Exception as e:  # noqa: BLE001
                        got = ('raised', e.__class__.__name__, None)
                        if (root.src, O.dump_pos(root.a)) != (src, pre):
                            res.fail(cid, 'raised-but-source-changed', f'old={src!r}\n{e!r}\nnow={root.src!r}', {'prog': pi}, {'prog': pi, 'coords': True})
                            continue
                    if got != want:
                        res.fail(cid, 'equivalent-coordinates-give-different-result',
                                 f'old={src!r}\nplain {(ln, col, eln, ecol)} -> {want[:2]!r}\ngiven {enc} -> {got[:2]!r}', {'prog': pi},
                                 {'prog': pi, 'coords': True})
                    else:
                        res.outcomes['coords-same'] += 1
                        res.nontriv(pi, o1, o2, text, enc)


def run_shard(desc, tier, res):
    import fst
    pi = desc['prog']
    src = PROGRAMS[pi]
    if desc['kind'] == 'rect':
        for o1 in range(desc['from'], desc['to']):
            for o2 in range(o1, min(len(src), o1 + SPAN[tier]) + 1):
                for text in TEXTS + (TEXTS_BLANK if pi == 20 else []):
                    if o1 == o2 and not text:
                        continue
                    run_rect(fst, pi, o1, o2, text, res)
    elif desc['kind'] == 'extent':
        # rectangles that are exactly the extent of a node or of a run of sibling statements (any length, multi-line included),
        # and the same rectangles reaching into the following ';' statement / up to the end of the last line
        lines = src.split('\n')

        def off(ln, col):
            return O.offset_of(lines, ln - 1, O.byte2char(lines[ln - 1], col))
        tree = ast.parse(src)
        rects = set()
        for path, node in O.iter_nodes(tree):
            if hasattr(node, 'lineno'):
                a, b = off(node.lineno, node.col_offset), off(node.end_lineno, node.end_col_offset)
                rects.add((a, b))
                eol = src.find('\n', b)
                rects.add((a, len(src) if eol < 0 else eol))
            for fld in ('body', 'orelse', 'finalbody'):
                lst = getattr(node, fld, None)
                if isinstance(lst, list) and lst and isinstance(lst[0], ast.stmt):
                    for i in range(len(lst)):
                        for j in range(i + 1, len(lst) + 1):
                            rects.add((off(lst[i].lineno, lst[i].col_offset), off(lst[j - 1].end_lineno, lst[j - 1].end_col_offset)))
        for o1, o2 in sorted(rects):
            if o2 - o1 <= SPAN[tier]:
                continue  # covered by the all-rectangles pass
            ind = ' ' * (o1 - (src.rfind('\n', 0, o1) + 1))
            for text in TEXTS_EXTENT + [f'p\n{ind}q', f'if p:\n{ind}    q\n{ind}r']:
                run_rect(fst, pi, o1, o2, text, res)
    elif desc['kind'] == 'coords':
        run_coords(fst, pi, src, tier, res)
    elif desc['kind'] == 'rawto':
        run_rawto(fst, pi, src, tier, res)
    elif desc['kind'] == 'rootkind':
        run_rootkind(fst, desc['root'], tier, res)
    elif desc['kind'] == 'reparse':
        tree = ast.parse(src)
        for path, node in O.iter_nodes(tree):
            if not hasattr(node, 'lineno') and not isinstance(node, ast.Module):
                continue
            root = fst.FST(src, 'exec')
            pre = O.dump_pos(root.a)
            from ..fstnav import node_at
            cid = f'C10/p{pi}/reparse {O.path_str(path)}'
            res.evals += 1
            res.transitions += 1
            try:
                n = node_at(root, path)
                n.reparse()
            except Exception as e:  # noqa: BLE001
                if (root.src, O.dump_pos(root.a)) != (src, pre):
                    res.fail(cid, 'reparse-raised-and-changed', repr(e), {'prog': pi}, None)
                elif not isinstance(e, (NotImplementedError,)):
                    res.fail(cid, 'reparse-refused-valid-source', repr(e), {'prog': pi}, None)
                continue
            res.traces += 1
            if root.src != src or O.dump_pos(root.a) != pre or root.a.f is not root:
                res.fail(cid, 'reparse-changed-tree', O.first_diff(O.dump_pos(root.a), pre), {'prog': pi}, None)
            else:
                res.outcomes['reparse-ok'] += 1
    elif desc['kind'] == 'rawput':
        from .. import edits as E
        nk = 3 if tier == 'quick' else 8
        for op in E.enumerate_ops(src, nk=nk, nks=2, forms=('src', 'fst'), opts=({'raw': True},),
                                  kinds=('replace', 'remove', 'put_slice', 'del_slice', 'replace_op')):
            if op.get('opts') != {'raw': True}:
                op = dict(op, opts={'raw': True})
            root = fst.FST(src, 'exec')
            pre = O.dump_pos(root.a)
            cid = f'C10/p{pi}/raw ' + E.op_id(op)
            res.evals += 1
            res.transitions += 1
            try:
                with deadline(10):
                    E.apply(fst, root, op)
                exc = None
            except CaseTimeout:
                res.fail(cid, 'hang', '', {'prog': pi}, None)
                continue
            except Exception as e:  # noqa: BLE001
                exc = e
            res.traces += 1
            rep = {'prog': pi, 'rawop': op}
            if exc is not None:
                res.outcomes['raw-raised:' + exc.__class__.__name__] += 1
                try:
                    now = (root.src, O.dump_pos(root.a))
                except Exception as e:  # noqa: BLE001
                    now = repr(e)
                if now != (src, pre):
                    res.fail(cid, 'raw-put-raised-but-changed', f'old={src!r}\nraised={exc!r}\nnow={now!r}'[:1500],
                             {'prog': pi}, rep)
                continue
            new = root.src
            want = O.try_parse(new)
            if want is None:
                res.fail(cid, 'raw-put-left-unparsable-source', f'old={src!r}\nnew={new!r}', {'prog': pi}, rep)
            elif O.dump_pos(root.a) != O.dump_pos(want):
                res.fail(cid, 'raw-put-tree-differs-from-full-parse',
                         f'old={src!r}\nnew={new!r}\n' + O.first_diff(O.dump_pos(root.a), O.dump_pos(want)), {'prog': pi}, rep)
            elif root.a.f is not root:
                res.fail(cid, 'root-identity-lost', '', {'prog': pi}, rep)
            else:
                res.outcomes['raw-ok'] += 1
                res.nontriv(src, E.op_id(op))
                res.state(new, O.dump_pos(root.a))
    else:  # depth 2: every valid first edit (small span, few texts) followed by every second edit
        span = 2 if tier == 'quick' else 3
        texts = ['', ' ', 'x', '\n', '#', ';'] if tier == 'quick' else TEXTS[:10]
        for a1 in range(desc['from'], desc['to']):
            for a2 in range(a1, min(len(src), a1 + span) + 1):
                for t1 in texts:
                    if a1 == a2 and not t1:
                        continue
                    mid = src[:a1] + t1 + src[a2:]
                    if O.try_parse(mid) is None:
                        continue
                    lo = max(0, a1 - 3)
                    hi = min(len(mid), a1 + len(t1) + 3)
                    for o1 in range(lo, hi + 1):  # second edit in the neighbourhood of the first
                        for o2 in range(o1, min(len(mid), o1 + span) + 1):
                            for t2 in texts:
                                if o1 == o2 and not t2:
                                    continue
                                if not run_rect(fst, pi, o1, o2, t2, res, first=(a1, a2, t1)):
                                    break


def replay(rep, res):
    import fst
    if 'root' in rep:
        run_rootkind(fst, rep['root'], 'quick', res)
        return
    if rep.get('rawto'):
        run_rawto(fst, rep['prog'], PROGRAMS[rep['prog']], 'quick', res)
        return
    if rep.get('coords'):
        run_coords(fst, rep['prog'], PROGRAMS[rep['prog']], 'quick', res)
        return
    if 'rawop' in rep:
        from .. import edits as E
        root = fst.FST(PROGRAMS[rep['prog']], 'exec')
        E.apply(fst, root, rep['rawop'])
        print(repr(root.src))
        want = ast.parse(root.src)
        if O.dump_pos(root.a) != O.dump_pos(want):
            res.fail('replay', 'raw-put-tree-differs-from-full-parse', O.first_diff(O.dump_pos(root.a), O.dump_pos(want)))
        return
    hist = rep['hist']
    first = tuple(hist[0]) if len(hist) == 2 else None
    o1, o2, text = hist[-1]
    run_rect(fst, rep['prog'], o1, o2, text, res, first=first)
