"""C04 - formatting and comments outside the edited element are preserved byte for byte.

bfs (depth 1, thorough 2) with the structured-edit alphabet and every trivia / pep8space / elif_ / docstr option value on
programs in which every line carries a uniquely numbered comment. From the pre-state and the request alone an *allowed
region* is computed with CPython positions and the token stream; everything outside it must be untouched."""
from __future__ import annotations

import ast
import collections
import io
import re
import tokenize

from .. import edits as E
from .. import explore as X
from .. import oracle as O
from ..fstnav import live_vs_parse
from ..programs import PROGRAMS

ID = 'C04'
LEVEL = 'model_checking'
TECHNIQUE = ('explicit-state bfs over structured edits x option settings on fully commented programs; every transition is judged by a '
             'line/token/comment diff against an allowed region computed from CPython positions, the token stream and a reference of '
             'the documented trivia selection')
LEVEL_TEXT = ('every edit of the alphabet (replace, remove, slice put/delete, insert at every target) x 9 trivia/pep8space/elif_/docstr '
              'settings on 48 programs (12 fully commented, 16 shared, 20 hostile: comments ending in a backslash or looking like code, multi-line and nested f-strings inside re-indented blocks) is executed; all old non-blank lines outside the allowed line span must be '
              'byte-identical and in order, the payload token sequence (names, numbers, strings, non-separator keywords) must equal the old one with the tokens inside the edited extent swapped for those of the new code, and the comment multiset must be conserved '
              'except for comments the effective trivia option selects')
LEVEL_NOTE = ('trusted: CPython ast positions / tokenize; the trivia reference treats the option as permission, not obligation; the '
              'header line of an else/finally block that the edit empties or creates belongs to the allowed region')
RULE = ('bfs: transitions = edits applied; non-trivial = distinct (pre-state, edit) that changed the source; states = canonical '
        '(src, positioned dump); traces = transitions diffed against the allowed region')
ASSUMPTIONS = ['norm=True, pars auto', 'comments in the programs are unique so that conservation is a multiset check']
BOUNDS = {'quick': '32 programs, depth 1, 2 codes per category (src form), 9 option settings',
          'thorough': 'depth 2 with the 1-code alphabet; 4 codes, 3 forms at depth 1'}

COMMENTED = [
    "# c0\nx = 1  # c1\n# c2\ny = 2  # c3\n\n# c4\nz = 3  # c5\n# c6",
    "if a:  # c0\n    # c1\n    b  # c2\n    # c3\n    c  # c4\nelse:  # c5\n    # c6\n    d  # c7\n# c8\ne  # c9",
    "def f(a,  # c0\n      b):  # c1\n    # c2\n    x = 1  # c3\n\n    # c4\n    return x  # c5\n# c6\ng = 2  # c7",
    "v = [  # c0\n    a,  # c1\n    b,  # c2\n    # c3\n    c,  # c4\n]  # c5\nw = 0  # c6",
    "try:  # c0\n    a  # c1\nexcept E:  # c2\n    b  # c3\nelse:  # c4\n    c  # c5\nfinally:  # c6\n    d  # c7\ne  # c8",
    "class C:  # c0\n    '''doc'''  # c1\n    # c2\n    x = 1  # c3\n\n    def m(self):  # c4\n        pass  # c5\n# c6",
    "f(a,  # c0\n  b,  # c1\n  k=c)  # c2\n# c3\ng(d)  # c4",
    "for i in j:  # c0\n    k  # c1\nelse:  # c2\n    l  # c3\nwhile m:  # c4\n    n  # c5  \n    o; p  # c6",
    "x = 1; y = 2  # c0\n# c1\nz = {a: b,  # c2\n     c: d}  # c3",
    "match s:  # c0\n    case 1:  # c1\n        a  # c2\n    # c3\n    case _:  # c4\n        b  # c5",
    "with a as b, c:  # c0\n    # c1\n    d  # c2\n\n\n# c3\n\ne  # c4",
    "import a, b  # c0\nfrom m import (c,  # c1\n               d)  # c2\n# c3\ndel e, f  # c4",
]
for _p in COMMENTED:
    ast.parse(_p)
# appended after the shared programs (case ids are positional): comments that look like syntax (trailing backslash, code-like text)
# and multi-line (f-)strings, with nested f-strings starting on later lines, inside blocks that edits re-indent
class _M:
    def __init__(self, text):
        self.text = text

    def group(self, _=0):
        return self.text


_CMT_CACHE = [None, None]


def _cmt(lines, ln):
    """The comment TOKEN on line `ln` (1-based) of the source `lines` belongs to (a '#' inside a string literal is not a comment);
    match-like (group(0)) or None."""
    if _CMT_CACHE[0] is not lines:
        table = {}
        toks = O.tokens('\n'.join(lines))
        if toks is None:  # does not tokenize: fall back to the text
            for i, l in enumerate(lines, 1):
                m = re.search(r'#.*$', l)
                if m:
                    table[i] = m.group(0)
        else:
            for t in toks:
                if t.type == tokenize.COMMENT:
                    table[t.start[0]] = t.string
        _CMT_CACHE[0], _CMT_CACHE[1] = lines, table
    c = _CMT_CACHE[1].get(ln)
    return _M(c) if c is not None else None


HOSTILE = [
    "x = 1  # c0 \\\ny = 2  # c1 \\\n# c2 \\\nz = 3  # c3 \\\nif a:  # c4 \\\n    b  # c5 \\\n    # c6 \\\n    c  # c7 \\",
    "x = [  # c0 (\n    a,  # c1 '''\n    b,  # c2 ]\n]  # c3 ;\nif a:  # c4 else:\n    b  # c5 \"\nelse:  # c6 if x:\n    c  # c7 #",
    "if a:  # c0\n    s = '''l1\n  l2\n        l3'''  # c1\nelif b:  # c2\n    t = f'''m1\n  {x}\n    {''.join(f'<{y}>' for y in z)}\n m3'''  # c3\n"
    "    u = 0  # c4\ndef f():  # c5\n    v = \"\"\"n1\nn2\"\"\"  # c6\n    return v  # c7",
    "if a:\n    pass\nelif b:\n    w = f'''{\n1}\n  {f'{2}'}\n{f'''\n {3}\n'''}\n    e'''\n    x = '\\\n  c\\\nd'\nfor i in j:\n    y = f'''\n  {i}\n{f'{i}'}\n'''",
    # nested block first in a def (its extent is computed - and cached - while the tree is built), last statement commented
    "def f(x):  # c0\n    if x:  # c1\n        g(x)  # c2\n        a = h(x)  # c3\n    b = 2  # c4\n    return b  # c5",
    # undelimited name / target lists at the end of a block section, semicolons (also inside a string) in the sections that follow
    "try:  # c0\n    import a, b  # c1\nexcept E:  # c2\n    print('no; way')  # c3\nelse:  # c4\n    del p, q  # c5\nfinally:  # c6\n    r; s  # c7",
    "def f():  # c0\n    if a:  # c1\n        global g, h  # c2\n    elif b:  # c3\n        from m import i, j  # c4\n    else:  # c5\n        k = 1; l = 2  # c6",
    # bodies that start with a constant which is not a docstring (stubs, protocol members)
    "def f(): ...  # c0\nclass P:  # c1\n    x: int  # c2\n    def m(self): ...  # c3\ndef g():  # c4\n    1  # c5\n    return 2  # c6\ndef h():  # c7\n    b'x'  # c8",
]
HOSTILE += [
    # multi-line operand chains and undelimited sequences (every operand / element with its own line comment, one with a leading one)
    "x = (a and  # c0\n     b and  # c1\n     # c2\n     c)  # c3\ny = (p <  # c4\n     q <=  # c5\n     r)  # c6",
    "d[a,  # c0\n  b,  # c1\n  # c2\n  c]  # c3\nt = (k,  # c4\n     l)  # c5",
    "match s:  # c0\n    case (a |  # c1\n          b |  # c2\n          c):  # c3\n        pass\n    case [p,  # c4\n          q]:  # c5\n        pass",
]
HOSTILE += [  # parameter lists with every kind of parameter on its own commented line
    "def f(\n    a,  # c0\n    /,  # c1\n    b=1,  # c2\n    *c,  # c3\n    d,  # c4\n    **e,  # c5\n):  # c6\n    pass\ng = lambda a, *b, c=1: 0  # c7",
]
HOSTILE += [  # '#' inside string literals in front of real comments
    "v = [  # c0\n    '#a',  # c1\n    '# b',  # c2\n]  # c3\nd = {'#k': '#v',  # c4\n     k: \"# w\"}  # c5\nf('#', x)  # c6",
]
HOSTILE += [  # separator-first layouts: the comma / operator opens the line, the element's comment closes the line before it
    "x = [a  # c0\n    , b  # c1\n    , c  # c2\n]  # c3\nf(p  # c4\n  , q  # c5\n  , k=r  # c6\n  )  # c7",
    "d = {a: 1  # c0\n   , b: 2  # c1\n   , **c  # c2\n   }  # c3\ny = (p  # c4\n     + q  # c5\n     + r)  # c6",
]
HOSTILE += [  # lines that look like a comment / a blank line from column 0 but belong to the element before: the closing line of a
    # multi-line string, the comment block above the first decorator (it belongs to the statement, the decorator list starts below it)
    'x = [\n    """a\n# not a comment""",\n    b,  # c0\n    c,\n]  # c1\nf(\'\'\'m\n\n\'\'\',\n  p,  # c2\n  k=q)',
    "# c0\n# c1\n@d1  # c2\n@d2\ndef f():  # c3\n    pass\n# c4\n@e1\n# c5\n@e2\nclass K:\n    pass",
]
HOSTILE += [  # comments between the separators of a slice and its parts
    "v = a[b:  # c0\n      c:  # c1\n      d]  # c2\nw = a[  # c3\n      b:c]  # c4",
]
for _p in HOSTILE:
    ast.parse(_p)
PROGS = COMMENTED + [PROGRAMS[i] for i in (11, 20, 21, 22, 23, 24, 25, 26, 27, 28, 37, 38)] + HOSTILE
LC_PROGS = list(range(len(COMMENTED))) + list(range(len(PROGS) - len(HOSTILE), len(PROGS)))
MB_TAILS = [  # name lists and sequences behind multi-byte text on the same line (character columns are not byte columns)
    "def f():\n    global é, b, c, d  # c0\n    s = 'éé'; global ñandú, x, y  # c1\n    def g():\n        nonlocal s; t = 'ü'; del é, b, (c)  # c2",
    "from módulo import añadir, b, c  # c0\nimport ü.ö, b, c as é  # c1\nz = ['é', a, b]; w = {'ñ': a, b: c}  # c2",
]
PROGS = PROGS + [PROGRAMS[i].replace(': pass', ':\n    pass') if i == 56 else PROGRAMS[i] for i in (56, 57, 58, 59)]  # later shared programs go to the end (positional case ids); bodies on their own lines (the line oracle does not split a header line)
PROGS = PROGS + MB_TAILS

OPTS = [{}, {'trivia': False}, {'trivia': 'all'}, {'trivia': ('all', 'all')}, {'trivia': 'block+1'}, {'trivia': ('none', 'none')},
        {'pep8space': False}, {'elif_': False}, {'docstr': False}]
KINDS = ('replace', 'remove', 'put_slice', 'del_slice', 'insert', 'docstr')


def nonblank(lines):
    return [(i, l) for i, l in enumerate(lines) if l.strip()]


def comments_of(text):
    c = O.comments(text)
    return collections.Counter(c) if c is not None else None


def trivia_eff(opts):
    """(leading, trailing) kinds of the effective trivia option, blank-line suffixes dropped."""
    t = opts.get('trivia', True)
    if t is True:
        lead, trail = 'block', 'line'
    elif t is False:
        lead, trail = 'none', 'line'
    elif isinstance(t, str):
        lead, trail = (re.sub(r'[+-]\d*$', '', t) or 'block'), 'line'
    elif isinstance(t, tuple):
        if len(t) == 0:
            lead, trail = 'none', 'none'
        elif len(t) == 1:
            lead, trail = 'block', t[0]
        else:
            lead, trail = t
        conv = lambda v, d: d if v is True else 'none' if v is False else (re.sub(r'[+-]\d*$', '', v) or d) if isinstance(v, str) else 'all'  # noqa: E731
        lead, trail = conv(lead, 'block'), conv(trail, 'line')
    else:
        lead, trail = 'all', 'all'
    return lead, trail


def allowed(src, tree, op):
    """(set of 0-based line numbers that may change, set of comment texts that may disappear)."""
    lines = src.split('\n')
    path = tuple(tuple(x) for x in op['path'])
    k = op['op']
    lead, trail = trivia_eff(op.get('opts') or {})

    def stmt_of(p):
        """innermost statement-like node on the path and the path to it"""
        best = None
        for i in range(len(p) + 1):
            n = O.get_path(tree, p[:i])
            if isinstance(n, (ast.stmt, ast.excepthandler, ast.match_case)):
                best = n
        return best

    def span(n):
        if isinstance(n, ast.match_case):
            return n.pattern.lineno, n.body[-1].end_lineno
        a = n.lineno
        if getattr(n, 'decorator_list', None):
            a = min(a, n.decorator_list[0].lineno)
            while a > 1 and not lines[a - 1].lstrip().startswith('@'):
                a -= 1
        if isinstance(n, ast.match_case):
            return n.pattern.lineno, n.body[-1].end_lineno
        return a, n.end_lineno

    def header_span(st):
        """lines of the header part of a block statement, or all lines of a simple statement (1-based inclusive)."""
        a, b = span(st)
        body = getattr(st, 'body', None)
        if isinstance(body, list) and body and isinstance(body[0], ast.AST) and hasattr(body[0], 'lineno'):
            return a, max(a, body[0].lineno - (0 if body[0].lineno == a else 1))
        return a, b

    def trivia_lines(a, b):
        """lines (1-based) of comments the trivia option may take with an element occupying lines a..b, plus adjacent blanks"""
        out = set()
        coms = set()
        i = a - 1
        # leading
        seen_blank = False
        while i >= 1:
            s = lines[i - 1].strip()
            if not s:
                out.add(i)
                seen_blank = True
            elif s.startswith('#'):
                if lead == 'all' or (lead == 'block' and not seen_blank):
                    out.add(i)
                    coms.add(s)
                elif lead == 'block' and seen_blank:
                    break
                else:
                    break
            else:
                break
            i -= 1
        # trailing line comment on the last line
        m = _cmt(lines, b) if b - 1 < len(lines) else None
        if m and trail != 'none':
            coms.add(m.group(0).strip())
        i = b + 1
        seen_blank = False
        while i <= len(lines):
            s = lines[i - 1].strip()
            if not s:
                out.add(i)
                seen_blank = True
            elif s.startswith('#') and (trail == 'all' or (trail == 'block' and not seen_blank)):
                out.add(i)
                coms.add(s)
            else:
                break
            i += 1
        return out, coms

    target = O.get_path(tree, path) if k in ('replace', 'remove', 'cut') else None
    lines_ok, coms_ok = set(), set()
    if k in ('replace', 'remove', 'cut'):
        if isinstance(target, (ast.stmt, ast.excepthandler, ast.match_case)):
            a, b = span(target)
            lines_ok |= set(range(a, b + 1))
            tl, tc = trivia_lines(a, b)
            lines_ok |= tl
            coms_ok |= tc
            for ln in range(a, b + 1):
                m = _cmt(lines, ln)
                if m:
                    coms_ok.add(m.group(0).strip())  # comments inside the replaced/removed element itself
            par = O.get_path(tree, path[:-1])
            f = path[-1][0]
            code0 = (op.get('code') or [None])[0]
            if k == 'replace' and f == 'orelse' and isinstance(par, ast.If) and len(par.orelse) == 1 and \
                    (op.get('opts') or {}).get('elif_', True) and \
                    ((isinstance(code0, str) and code0.lstrip().startswith('if ')) or lines[a - 1].lstrip().startswith('elif')):
                hl = a - 1  # 'else:' + 'if' <-> 'elif' (elif_ option): the header line of the else block is rewritten
                while hl >= 1 and not re.match(r'\s*(else|elif)\b', lines[hl - 1]):
                    hl -= 1
                if hl >= 1:
                    lines_ok |= set(range(hl, a))
            # a block that becomes empty loses its header line
            if k != 'replace' and f in ('orelse', 'finalbody') and len(getattr(par, f)) == 1:
                hl = a - 1
                while hl >= 1 and not re.match(r'\s*(else|finally|elif)\b', lines[hl - 1]):
                    hl -= 1
                if hl >= 1:
                    for ln in range(hl, a):
                        lines_ok.add(ln)
                        m = _cmt(lines, ln)
                        if m:
                            coms_ok.add(m.group(0).strip())
                    tl, tc = trivia_lines(hl, b)  # the leading trivia of the emptied block hangs off its header line
                    lines_ok |= tl
                    coms_ok |= tc
        else:
            st = stmt_of(path)
            if st is None:
                return None
            a, b = header_span(st)
            ta, tb = (target.lineno, target.end_lineno) if hasattr(target, 'lineno') else (a, b)
            lines_ok |= set(range(a, b + 1))
            if k != 'replace' or True:
                tl, tc = trivia_lines(ta, tb)
                coms_ok |= {c for c in tc}
            for ln in range(ta, tb + 1):
                m = _cmt(lines, ln)
                if m:
                    coms_ok.add(m.group(0).strip())
    elif k in ('put_slice', 'insert'):
        par = O.get_path(tree, path)
        f = op['field']
        lst = getattr(par, f)
        i = op.get('start', op.get('idx'))
        j = op.get('stop', i)
        if i is None or not all(hasattr(x, 'lineno') for x in lst):
            return None
        is_stmt = bool(lst) and isinstance(lst[0], (ast.stmt, ast.excepthandler, ast.match_case)) or f in ('body', 'orelse', 'finalbody', 'handlers', 'cases')
        if is_stmt:
            if j > i:
                a, b = span(lst[i])[0], span(lst[j - 1])[1]
                lines_ok |= set(range(a, b + 1))
                tl, tc = trivia_lines(a, b)
                lines_ok |= tl
                coms_ok |= tc
                for ln in range(a, b + 1):
                    m = _cmt(lines, ln)
                    if m:
                        coms_ok.add(m.group(0).strip())
                if op['code'][0] is None and j - i == len(lst) and f in ('orelse', 'finalbody'):
                    hl = a - 1
                    while hl >= 1 and not re.match(r'\s*(else|finally|elif)\b', lines[hl - 1]):
                        hl -= 1
                    for ln in range(max(hl, 1), a):
                        lines_ok.add(ln)
                        m = _cmt(lines, ln)
                        if m:
                            coms_ok.add(m.group(0).strip())
                    tl, tc = trivia_lines(max(hl, 1), b)
                    lines_ok |= tl
                    coms_ok |= tc
            else:
                # insertion: only blank lines in the gap may change; a one-line block ('if a: b') may be normalised
                prev_end = span(lst[i - 1])[1] if i > 0 else (par.lineno if hasattr(par, 'lineno') else 0)
                nxt = span(lst[i])[0] if i < len(lst) else None
                lo = prev_end
                hi = nxt if nxt is not None else (getattr(par, 'end_lineno', len(lines)) + 1)
                for ln in range(max(lo, 1), min(hi, len(lines)) + 1):
                    if not lines[ln - 1].strip():
                        lines_ok.add(ln)
                if not lst:  # creating a block: its (new) header line
                    pass
                if hasattr(par, 'lineno') and lst and lst[0].lineno == par.lineno:
                    lines_ok |= set(range(par.lineno, par.end_lineno + 1))  # single-line block gets normalised
                if lst and lines[lst[0].lineno - 1][:O.byte2char(lines[lst[0].lineno - 1], lst[0].col_offset)].strip():
                    lines_ok |= set(range(lst[0].lineno, lst[-1].end_lineno + 1))  # statement on the 'else:' / header line: block gets normalised
                if f == 'orelse' and len(lst) == 1 and isinstance(lst[0], ast.If) and lines[lst[0].lineno - 1].lstrip().startswith('elif'):
                    lines_ok |= set(range(lst[0].lineno, lst[0].end_lineno + 1))  # 'elif' has to become 'else:' + indented 'if'
                if i > 0 and i < len(lst) and lst[i - 1].end_lineno == lst[i].lineno:
                    lines_ok |= set(range(lst[i - 1].lineno, lst[i].end_lineno + 1))  # splitting semicolon-joined siblings
        else:
            st = stmt_of(path) or (par if isinstance(par, ast.stmt) else None)
            if st is None:
                return None
            a, b = header_span(st)
            lines_ok |= set(range(a, b + 1))
            if j > i:
                ta, tb = lst[i].lineno, lst[j - 1].end_lineno
                tl, tc = trivia_lines(ta, tb)
                coms_ok |= tc
                for ln in range(ta, tb + 1):
                    m = _cmt(lines, ln)
                    if m:
                        coms_ok.add(m.group(0).strip())
    elif k == 'put_docstr':
        node = O.get_path(tree, path)
        body = getattr(node, 'body', None)
        if not isinstance(body, list) or not body:
            return None
        b0 = body[0]
        has = isinstance(b0, ast.Expr) and isinstance(b0.value, ast.Constant) and isinstance(b0.value.value, str)
        if has:
            a, b = span(b0)
            lines_ok |= set(range(a, b + 1))
            tl, _ = trivia_lines(a, b)
            lines_ok |= {ln for ln in tl if not lines[ln - 1].strip()}
        else:  # insertion in front of the first statement: blank lines there; a body on the header line gets normalised
            first = span(b0)[0]
            hdr = getattr(node, 'lineno', 1)
            for ln in range(max(hdr, 1), first):
                if not lines[ln - 1].strip():
                    lines_ok.add(ln)
            if hasattr(node, 'lineno') and b0.lineno == node.end_lineno == node.lineno or (hasattr(node, 'lineno') and lines[b0.lineno - 1][:O.byte2char(lines[b0.lineno - 1], b0.col_offset)].strip()):
                lines_ok |= set(range(node.lineno, node.end_lineno + 1))
    elif k == 'put_line_comment':
        st = O.get_path(tree, path)
        if not isinstance(st, ast.stmt):
            return None
        a, b = header_span(st)
        fld = op.get('field')
        if fld:  # the comment of the 'else:' / 'finally:' line of that field
            first = getattr(st, fld)[0].lineno
            a = first
            while a >= 1 and not re.match(r'\s*(else|finally)\b', lines[a - 1]):
                a -= 1
            b = a
        elif b > a or isinstance(getattr(st, 'body', None), list):
            pass  # block statement: the comment lives on the last header line
        lines_ok |= set(range(a, b + 1))
        for ln in range(a, b + 1):
            m = _cmt(lines, ln)
            if m:
                coms_ok.add(m.group(0).strip())  # the comment that is replaced / deleted
    else:
        return None
    return {x - 1 for x in lines_ok}, coms_ok


GLUE_KW = {'else', 'elif', 'if', 'finally', 'as', 'from', 'and', 'or', 'not', 'in', 'is'}
_SKIP = {tokenize.COMMENT, tokenize.NL, tokenize.NEWLINE, tokenize.INDENT, tokenize.DEDENT, tokenize.ENDMARKER}


def toks(text):
    """[(text, start, end)] of the payload tokens: names, numbers, strings and keywords that no edit ever adds or removes on its own.
    Punctuation and the keywords that act as separators / block headers (GLUE_KW) are judged by C01, not here."""
    out = []
    try:
        for t in tokenize.generate_tokens(io.StringIO(text).readline):
            if t.type in _SKIP or t.type == tokenize.OP or (t.type == tokenize.NAME and t.string in GLUE_KW):
                continue
            out.append((t.string, t.start, t.end))
    except (tokenize.TokenError, SyntaxError, IndentationError):
        return None
    return out


def token_expectation(src, tree, op):
    """The payload-token sequence the post-state must have: the old sequence with the tokens inside the extent of the
    replaced / removed element(s) swapped for those of the new code. None = not judged; ('any', old, code) = the code's tokens
    may sit at any single position (insertion into an empty list)."""
    lines = src.split('\n')
    path = tuple(tuple(x) for x in op['path'])
    k = op['op']
    old = toks(src)
    code = op.get('code') or [None]
    ctoks = [] if code[0] is None else toks(code[0]) if isinstance(code[0], str) else None
    if old is None or ctoks is None:
        return None
    ctoks = [t[0] for t in ctoks]

    def start(n):
        if isinstance(n, ast.match_case):
            return (n.pattern.lineno, 0)
        ln, col = n.lineno, O.byte2char(lines[n.lineno - 1], n.col_offset)
        if getattr(n, 'decorator_list', None):
            d = n.decorator_list[0]
            return (d.lineno, 0) if d.lineno < ln else (ln, 0)
        return (ln, col)

    def end(n):
        if isinstance(n, ast.match_case):
            n = n.body[-1]
        return (n.end_lineno, O.byte2char(lines[n.end_lineno - 1], n.end_col_offset))

    if k in ('replace', 'remove', 'cut'):
        n = O.get_path(tree, path)
        if not (hasattr(n, 'lineno') or isinstance(n, ast.match_case)):
            return None
        a, b = start(n), end(n)
    elif k in ('put_slice', 'insert'):
        par = O.get_path(tree, path)
        lst = getattr(par, op['field'], None)
        i = op.get('start', op.get('idx'))
        j = op.get('stop', i)
        if isinstance(par, (ast.Global, ast.Nonlocal)) and op['field'] == 'names' and isinstance(i, int) and isinstance(j, int) and 0 <= i <= j <= len(lst):
            a, b = start(par), end(par)  # a list of identifiers: the statement's payload is its keyword and its names
            mid = [t[0] for t in old if t[1] >= a and t[2] <= b]
            if mid[1:] != list(lst):
                return None
            return ('exact', [t[0] for t in old if t[2] <= a] + mid[:1 + i] + ctoks + mid[1 + j:] + [t[0] for t in old if t[1] >= b])
        if not isinstance(lst, list) or not isinstance(i, int) or not isinstance(j, int) or i < 0 or j < i or j > len(lst) or \
                not all(hasattr(x, 'lineno') or isinstance(x, ast.match_case) for x in lst):
            return None
        if not lst:
            return ('any', [t[0] for t in old], ctoks)
        if j > i:
            a, b = start(lst[i]), end(lst[j - 1])
        elif i < len(lst):
            a = b = start(lst[i])
        else:
            a = b = end(lst[-1])
    elif k == 'put_line_comment':
        return ('exact', [t[0] for t in old])
    elif k == 'put_docstr':
        node = O.get_path(tree, path)
        body = getattr(node, 'body', None)
        if not isinstance(body, list) or not body:
            return None
        b0 = body[0]
        has = isinstance(b0, ast.Expr) and isinstance(b0.value, ast.Constant) and isinstance(b0.value.value, str)
        names = [t[0] for t in old]
        if has:
            a, b = start(b0), end(b0)
            pre = [t[0] for t in old if t[2] <= a]
            post = [t[0] for t in old if t[1] >= b]
            return ('docstr', pre, post, op.get('text') is not None)
        if op.get('text') is None:
            return ('exact', names)
        return ('docstr-any', names)
    else:
        return None
    pre = [t[0] for t in old if t[2] <= a]
    post = [t[0] for t in old if t[1] >= b]
    if len(pre) + len(post) + sum(1 for t in old if t[1] >= a and t[2] <= b and not (t[2] <= a or t[1] >= b)) != len(old):
        return None  # a token straddles the extent boundary (f-string internals): not judged
    return ('exact', pre + ctoks + post)


def prepare(src, op):
    """CPython tree with positions synthesised for withitem / match_case, and the request with append-like kinds rewritten
    as the insert / put_slice they are defined as."""
    tree = ast.parse(src)
    lines = src.split('\n')
    for n in ast.walk(tree):
        if isinstance(n, ast.withitem):
            last = n.optional_vars or n.context_expr
            n.lineno, n.col_offset = n.context_expr.lineno, n.context_expr.col_offset
            n.end_lineno, n.end_col_offset = last.end_lineno, last.end_col_offset
        elif isinstance(n, ast.match_case):
            ln = n.pattern.lineno
            n.lineno, n.col_offset = ln, len(lines[ln - 1]) - len(lines[ln - 1].lstrip())
            n.end_lineno, n.end_col_offset = n.body[-1].end_lineno, n.body[-1].end_col_offset
    k = op['op']
    if k in ('append', 'prepend', 'extend', 'prextend'):
        par = O.get_path(tree, tuple(tuple(x) for x in op['path']))
        lst = getattr(par, op['field'], None)
        if isinstance(lst, list):
            at = len(lst) if k in ('append', 'extend') else 0
            op = dict(op)
            if k in ('append', 'prepend'):
                op.update(op='insert', idx=at)
            else:
                op.update(op='put_slice', start=at, stop=at)
    return tree, op


def classify_loss(src, tree, op, lost):
    """Input-side description of a comment loss, for the known-finding selectors: is the request a zero-length insertion into
    an expression-level sequence and do all lost comments sit in the gap the insertion goes into (from the line the previous
    element ends on to the line the next element / the closing delimiter starts on)?  Or the else -> elif rewriting?"""
    out = {}
    k = op['op']
    path = tuple(tuple(x) for x in op['path'])
    try:
        if k in ('insert', 'put_slice'):
            par = O.get_path(tree, path)
            lst = getattr(par, op['field'])
            i = op.get('start', op.get('idx'))
            j = op.get('stop', i)
            if i == j and not (lst and isinstance(lst[0], (ast.stmt, ast.excepthandler, ast.match_case))) and hasattr(par, 'lineno') \
                    and op['field'] not in ('body', 'orelse', 'finalbody', 'handlers', 'cases'):
                lo = lst[i - 1].end_lineno if i > 0 else par.lineno
                hi = lst[i].lineno if i < len(lst) else par.end_lineno
                where = {}
                for t in O.tokens(src) or []:
                    if t.type == tokenize.COMMENT:
                        where.setdefault(t.string, []).append(t.start[0])
                out['zero_len_exprseq_insert'] = True
                out['lost_only_in_insertion_gap'] = all(any(lo <= ln <= hi for ln in where.get(c, [])) for c in lost)
        if k in ('remove', 'cut', 'put_slice', 'cut_slice', 'delitem'):  # deletion of operands of an operator chain / of the leading elements of an undelimited sequence
            if k in ('remove', 'cut'):
                par, (fld, i) = O.get_path(tree, path[:-1]), path[-1]
                j = None if i is None else i + 1
            elif k == 'delitem':
                par, fld, i = O.get_path(tree, path), op['field'], op['idx']
                j = i + 1
            else:
                par, fld, i, j = O.get_path(tree, path), op['field'], op['start'], op['stop']
            deleting = k != 'put_slice' or (op.get('code') or [None])[0] is None
            if deleting and isinstance(i, int) and j is not None and j > i:
                if isinstance(par, (ast.BoolOp, ast.Compare)) and par.end_lineno > par.lineno:
                    out['opchain_operand_delete'] = True
                if isinstance(par, (ast.Tuple, ast.MatchSequence)) and i == 0 and fld in ('elts', 'patterns') and \
                        src.split('\n')[par.lineno - 1][O.byte2char(src.split('\n')[par.lineno - 1], par.col_offset)] not in '([':
                    out['undelimited_seq_head_delete'] = True
        if k in ('remove', 'cut') and path and path[-1][0] in ('vararg', 'kwarg') and path[-1][1] is None:
            out['star_param_delete'] = True
        if k == 'delattr' and op.get('field') in ('vararg', 'kwarg'):
            out['star_param_delete'] = True
        if k in ('remove', 'cut') and path and path[-1][0] in ('lower', 'upper', 'step') and isinstance(O.get_path(tree, path[:-1]), ast.Slice):
            out['slice_part_delete'] = True
        if k == 'delattr' and op.get('field') in ('lower', 'upper', 'step') and isinstance(O.get_path(tree, path), ast.Slice):
            out['slice_part_delete'] = True
        if k == 'replace' and path and path[-1][0] == 'orelse':
            par = O.get_path(tree, path[:-1])
            code0 = (op.get('code') or [None])[0]
            if isinstance(par, ast.If) and len(par.orelse) == 1 and (op.get('opts') or {}).get('elif_', True) and \
                    isinstance(code0, str) and code0.lstrip().startswith('if '):
                out['else_to_elif_replace'] = True
    except Exception:  # noqa: BLE001  (classification only; an unclassified loss is simply a VIOLATION)
        pass
    return out


def check_transition(src, new, op, res, cid, rep, params):
    tree, op = prepare(src, op)
    exp = token_expectation(src, tree, op)
    got = toks(new)
    if exp is not None and got is not None:
        got = [t[0] for t in got]
        def is_str(t):
            return t[:1] in '"\'' or t[:2].lower() in ('r"', "r'", 'u"', "u'") or t[:3].lower() in ('r""', "r''")
        if exp[0] == 'exact':
            ok = got == exp[1]
            want = exp[1]
        elif exp[0] == 'docstr':  # the old docstring token replaced by one string token (or removed)
            _, pre_, post_, keep = exp
            want = pre_ + (['<docstring>'] if keep else []) + post_
            ok = (got[:len(pre_)] == pre_ and got[len(got) - len(post_):] == post_ and len(got) == len(want)
                  and (not keep or is_str(got[len(pre_)])))
        elif exp[0] == 'docstr-any':  # one string token added, everything else untouched
            want = exp[1] + ['<+ docstring>']
            ok = len(got) == len(exp[1]) + 1 and any(got[:q] + got[q + 1:] == exp[1] and is_str(got[q]) for q in range(len(got)))
        else:
            _, o, c = exp
            ok = len(got) == len(o) + len(c) and any(got == o[:q] + c + o[q:] for q in range(len(o) + 1))
            want = o + ['<+>'] + c
        res.outcomes['tokens-judged'] += 1
        if not ok and op.get('field') in ('args', 'keywords', 'bases') and exp[0] == 'exact' and sorted(got) == sorted(exp[1]) and \
                isinstance(O.get_path(tree, tuple(tuple(x) for x in op['path'])), (ast.Call, ast.ClassDef)):
            # positional and keyword arguments are two lists that share one source sequence: an element added at the end of one list
            # may stand anywhere behind its list predecessor (pfst puts it behind a starred element of the other list that follows)
            res.outcomes['position-among-the-other-field-not-judged'] += 1
            ok = True
        if not ok:
            pth = tuple(tuple(x) for x in op['path'])
            if op['op'] in ('remove', 'cut') and pth:
                par = O.get_path(tree, pth[:-1])
                if (isinstance(par, ast.ExceptHandler) and pth[-1][0] == 'type' and par.name) or \
                        (isinstance(par, ast.Raise) and pth[-1][0] == 'exc' and par.cause):
                    params = dict(params, dependent_field=True)
            res.fail(cid, 'token-outside-edited-element-changed',
                     f'pre={src!r}\nnew={new!r}\nrequest={E.op_id(op)}\nexpected payload tokens: {want}\ngot: {got}', params, rep,
                     E.render(rep['src'], rep['hist']))
            return False
    al = allowed(src, tree, op)
    if al is None:
        res.outcomes['not-judged'] += 1
        return True
    lines_ok, coms_ok = al
    old_l, new_l = src.split('\n'), new.split('\n')
    onb, nnb = nonblank(old_l), nonblank(new_l)
    # longest common prefix / suffix of the non-blank line sequences (both alignments: identical neighbouring lines are ambiguous)
    def align(prefix_first):
        p = s = 0
        if prefix_first:
            while p < len(onb) and p < len(nnb) and onb[p][1] == nnb[p][1]:
                p += 1
            while s < len(onb) - p and s < len(nnb) - p and onb[len(onb) - 1 - s][1] == nnb[len(nnb) - 1 - s][1]:
                s += 1
        else:
            while s < len(onb) and s < len(nnb) and onb[len(onb) - 1 - s][1] == nnb[len(nnb) - 1 - s][1]:
                s += 1
            while p < len(onb) - s and p < len(nnb) - s and onb[p][1] == nnb[p][1]:
                p += 1
        return p, s
    p, s = align(True)
    changed_old = [i for i, _ in onb[p:len(onb) - s]]
    outside = [i for i in changed_old if i not in lines_ok]
    if outside:
        p2, s2 = align(False)
        ch2 = [i for i, _ in onb[p2:len(onb) - s2]]
        if not [i for i in ch2 if i not in lines_ok]:
            p, s, changed_old, outside = p2, s2, ch2, []
    if outside:
        # an old line that still exists unchanged somewhere in the changed region of the new text is fine (only shifted)
        new_mid = [l for _, l in nnb[p:len(nnb) - s]]
        really = []
        k = 0
        for i in changed_old:
            l = old_l[i]
            if i in lines_ok:
                continue
            try:
                k = new_mid.index(l, k) + 1
            except ValueError:
                really.append(i)
        if really:
            params = dict(params, **classify_loss(src, tree, op, []))
            if all(old_l[i] != old_l[i].rstrip() and old_l[i].rstrip() in new_mid for i in really):
                params['only_trailing_blanks_of_neighbour_line_removed'] = True  # input side: the line in front of the insertion ends in blanks
            res.fail(cid, 'line-outside-edited-element-changed',
                     f'pre={src!r}\nnew={new!r}\nrequest={E.op_id(op)}\nchanged old lines outside the allowed region: '
                     + '; '.join(f'{i}:{old_l[i]!r}' for i in really[:4]), params, rep, E.render(rep['src'], rep['hist']))
            return False
    # comments: nothing lost except what the trivia option selects / what sits inside the element, nothing duplicated
    c0, c1 = comments_of(src), comments_of(new)
    if c0 is not None and c1 is not None:
        code = op.get('code') or [None]
        cnew = comments_of(code[0]) if isinstance(code[0], str) else collections.Counter()
        cnew = cnew or collections.Counter()
        if op['op'] == 'put_line_comment' and op.get('text') is not None:
            cnew = collections.Counter(['# ' + op['text']])
        lost = c0 - c1
        bad_lost = [c for c in lost if c.strip() not in coms_ok]
        if bad_lost and (c1 - c0 - cnew):  # a comment is gone and a comment nobody wrote has appeared: not a plain loss
            res.fail(cid, 'comment-replaced-by-an-invented-one', f'pre={src!r}\nnew={new!r}\nrequest={E.op_id(op)}\nlost={bad_lost}\n'
                     f'invented={dict(c1 - c0 - cnew)}', params, rep, E.render(rep['src'], rep['hist']))
            return False
        if bad_lost:
            params = dict(params, **classify_loss(src, tree, op, bad_lost))
            res.fail(cid, 'comment-lost', f'pre={src!r}\nnew={new!r}\nrequest={E.op_id(op)}\nlost={bad_lost} (permitted by trivia: {sorted(coms_ok)})',
                     params, rep, E.render(rep['src'], rep['hist']))
            return False
        dup = c1 - c0 - cnew
        if dup:
            res.fail(cid, 'comment-duplicated-or-invented', f'pre={src!r}\nnew={new!r}\nrequest={E.op_id(op)}\nextra={dict(dup)}', params, rep,
                     E.render(rep['src'], rep['hist']))
            return False
        # surviving comments keep their relative order
        order0 = [c for c in (O.comments(src) or []) if c1[c] and c0[c] == 1]
        order1 = [c for c in (O.comments(new) or []) if c in set(order0)]
        if order1 != [c for c in order0 if c in set(order1)]:
            res.fail(cid, 'comments-reordered', f'pre={src!r}\nnew={new!r}\nrequest={E.op_id(op)}', params, rep, E.render(rep['src'], rep['hist']))
            return False
    return True


ORDER_VALUES = [True, False, 1, 0, 2, 'all', 'block', 'none', ('all', 'all'), (False, False), (1, 1)]
ORDER_EDITS = [  # (source, python expression of the edit with {T} = the trivia value)
    ("x = [\n    # lead\n    a,  # ca\n    # pre b\n    b,  # cb\n    c,\n]\n", "f.body[0].value.put_slice(None, 1, 2, 'elts', trivia={T})"),
    ("# c0\nx = 1  # c1\n\n# c2\ny = 2  # c3\nz = 3\n", "f.body[1].remove(trivia={T})"),
    ("f(a,  # ca\n  # pre b\n  b,  # cb\n  k=c)\n", "f.body[0].value.args[1].remove(trivia={T})"),
]
_ORDER_SCRIPT = """
import sys, json
sys.path.insert(0, {src!r})
from fst import FST
out = []
for val in {vals!r}:
    row = []
    for source, edit in {edits!r}:
        f = FST(source, 'exec')
        try:
            eval(edit.replace('{{T}}', repr(val)))
            row.append(f.src)
        except Exception as e:
            row.append('EXC:' + e.__class__.__name__)
    out.append(row)
print(json.dumps(out))
"""


def run_option_order(fst, vi, res):
    """An option value given to one call must not colour a later call (nor depend on an earlier one): every edit is run in a fresh
    interpreter with value v1 first and v2 second, and the second result is compared with a fresh interpreter in which v2 ran alone.
    Values that compare equal across types (True == 1, False == 0) are different option values."""
    import json
    import os
    import subprocess
    import sys
    repo_src = os.path.join(os.environ.get('PFSTMC_REPO', '/repo'), 'src')

    def run(vals):
        r = subprocess.run([sys.executable, '-X', 'utf8', '-c', _ORDER_SCRIPT.format(src=repo_src, vals=vals, edits=ORDER_EDITS)],
                           capture_output=True, text=True, timeout=120, env=dict(os.environ, PYTHONHASHSEED='0'))
        if r.returncode:
            raise RuntimeError(r.stderr[-400:])
        return json.loads(r.stdout)
    v1 = ORDER_VALUES[vi]
    solo = {repr(v): run([v])[0] for v in ORDER_VALUES}
    for v2 in ORDER_VALUES:
        if repr(v2) == repr(v1):
            continue
        cid = f'C04/optorder/{v1!r}->{v2!r}'
        res.evals += 1
        res.transitions += 2 * len(ORDER_EDITS)
        res.traces += 1
        got = run([v1, v2])
        if got[0] != solo[repr(v1)] or got[1] != solo[repr(v2)]:
            k = next(i for i in range(len(ORDER_EDITS)) if got[1][i] != solo[repr(v2)][i] or got[0][i] != solo[repr(v1)][i])
            res.fail(cid, 'option-value-of-an-earlier-call-changes-a-later-call',
                     f'edit={ORDER_EDITS[k][1]} on {ORDER_EDITS[k][0]!r}\nwith trivia={v2!r} after a call with trivia={v1!r}: {got[1][k]!r}\nalone: {solo[repr(v2)][k]!r}',
                     {'optorder': True}, {'optorder': vi})
        else:
            res.nontriv('optorder', repr(v1), repr(v2))
            res.outcomes['optorder-ok'] += 1


def shards(tier):
    out = [{'optorder': v} for v in range(len(ORDER_VALUES))]
    out += [{'prog': i, 'oi': oi, 'depth': 1} for i in range(len(PROGS)) for oi in range(len(OPTS))]
    # a comment rewritten in place (no node moves) followed by every edit: stale extents of enclosing blocks show up here
    out += [{'prog': i, 'oi': 0, 'depth': 2, 'lc_first': True} for i in LC_PROGS]
    if tier == 'thorough':
        out += [{'prog': i, 'oi': 0, 'depth': 2, 'part': [r, 4]} for i in range(len(COMMENTED)) for r in range(4)]
    return out


def run_shard(desc, tier, res):
    import fst
    if 'optorder' in desc:
        run_option_order(fst, desc['optorder'], res)
        return
    src0 = PROGS[desc['prog']]
    opt = OPTS[desc['oi']]
    a1 = dict(nk=2 if tier == 'quick' else 4, nks=2, forms=('src',) if tier == 'quick' else ('src', 'ast', 'fst'), opts=(opt,), kinds=KINDS)
    a2 = dict(nk=1, nks=1, forms=('src',), opts=(opt,), kinds=KINDS)
    if desc.get('lc_first'):
        a1 = dict(nk=1, nks=1, forms=('src',), opts=(opt,), kinds=('line_comment',), lc_texts=('a much longer comment text', 'q', None))

    def on_state(root, pre, hist, cid, c2):
        op = hist[-1]
        res.traces += 1
        rep = {'src': src0, 'hist': hist}
        ok = check_transition(pre[2], c2[2], op, res, cid, rep, {'op': op['op'], 'opts': str(opt)})
        if live_vs_parse(root, 'Module'):
            return False  # not expanded: C01's business
        if ok and c2[2] != pre[2]:
            res.nontriv(pre[2], E.op_id(op))
            res.sample({'pre': pre[2], 'request': E.op_id(op), 'post': c2[2]})
        return ok

    X.bfs(fst, src0, desc['depth'], [a1, a2], tuple(desc.get('part', (0, 1))), res, on_state,
          cid_prefix=f"C04/p{desc['prog']}/o{desc['oi']}/")


def replay(rep, res):
    import fst
    if 'optorder' in rep:
        run_option_order(fst, rep['optorder'], res)
        return
    root = fst.FST(rep['src'], 'exec')
    pre = rep['src']
    for op in rep['hist']:
        pre = root.src
        E.apply(fst, root, op)
        print(E.op_id(op), '->', repr(root.src))
    check_transition(pre, root.src, rep['hist'][-1], res, 'replay', rep, {})
