"""C09 - replacing an operand never changes how the surrounding expression groups.

enum engine: every (parent program, slot) x child code x parent layout x child form; the judge is CPython:
expected = parent's pure AST with the child's pure AST in the slot, normalised by unparse->parse."""
from __future__ import annotations

import ast
import copy

from .. import oracle as O
from .. import universe as U
from ..core import deadline, CaseTimeout
from ..fstnav import node_at, live_vs_parse, dump_noctx

ID = 'C09'
LEVEL = 'model_checking'
RULE = ('enum: every expr/pattern slot (derived from CPython ASDL) of every parent witness x every child witness x '
        'parent layouts x child forms (src/par/ml/AST/FST); a case is one replace() on a fresh tree; non-trivial = '
        'distinct (parent, slot, child, layout, form) where the edit succeeded and was compared with the '
        'unparse->parse normal form of the substituted pure AST; states = distinct start and result sources')
ASSUMPTIONS = ['CPython ast.parse / ast.unparse are the reference for grouping',
               'requests whose substituted pure AST is not a fixed point of unparse->parse are only checked for C01',
               'refusals (exceptions) are judged by C03/C12, not here, but are counted']
BOUNDS = {
    'quick': 'all parents (166 programs, all expr+pattern slots) x all children; parent layouts bare/par/parnl; '
             'child forms src, src-parenthesized, AST, FST, multi-line src+FST',
    'thorough': 'quick + parent layouts parcmt/parsp/par2, pars=True, put() entry point, FST children built from '
                'parenthesized and multi-line source',
}

import re
_SIMPLE = re.compile(r', simple=[01]')

PARENTS = U.PARENTS_EXPR + U.PARENTS_STMT + U.PARENTS_PATTERN + U.PARENTS_FSTR  # appended last: case ids name the parent by position


def shards(tier):
    return [{'parent': i} for i in range(len(PARENTS))]


def _children(typ):
    if typ == 'expr':
        for c in U.EXPR_CHILDREN:
            yield c, False
        for c in U.EXPR_CHILDREN_ML:
            yield c, True
    else:
        for c in U.PATTERN_CHILDREN:
            yield c, False
        for c in U.PATTERN_CHILDREN_ML:
            yield c, True


def _child_ast(typ, csrc):
    return U.parse_expr(csrc) if typ == 'expr' else U.parse_pattern(csrc)


def _expected(parent_tree, path, cast):
    exp = copy.deepcopy(parent_tree)
    O.set_path(exp, path, copy.deepcopy(cast))
    norm = O.parse_norm(exp)
    if norm is None:
        return None, 'invalid'
    if dump_noctx(norm) != dump_noctx(exp):
        return norm, 'not-fixpoint'
    if not O.compiles(ast.unparse(norm)):
        return norm, 'ok-parse-only'  # ast.parse accepts, the compiler does not (`u = *a`, `case f'{a}':`)
    return norm, 'ok'


def run_case(case, res, verbose=False):
    import fst
    FST = fst.FST
    psrc, path, typ, csrc, form, opts = case['src'], tuple(map(tuple, case['path'])), case['typ'], case['child'], \
        case['form'], case['opts']
    cid = case['id']
    ptree = ast.parse(psrc)
    cast = _child_ast(typ, csrc)
    exp, exp_status = _expected(ast.parse(case['base']), path, cast)
    res.evals += 1
    res.state('start', psrc)
    try:
        with deadline(10):
            root = FST(psrc, 'exec')
            node = node_at(root, path)
            mode = 'expr' if typ == 'expr' else 'pattern'
            if form == 'src':
                code = csrc
            elif form == 'srcpar':
                code = f'({csrc})'
            elif form == 'srccmt':  # new code that carries trivia of its own: it has to be stripped, not spliced in
                code = f'{csrc}  # note'
            elif form == 'srcnl':
                code = f'\n{csrc}\n'
            elif form == 'fstcmt':
                code = FST(f'{csrc}  # note', mode)
            elif form == 'ast':
                code = cast
            elif form == 'fst':
                code = FST(csrc, mode)
            elif form == 'fstpar':
                code = FST(f'({csrc})', mode)
            else:
                raise ValueError(form)
            res.transitions += 1
            if case.get('entry') == 'put':
                f_, i_ = path[-1]
                parent = node.parent
                parent.put(code, i_, f_, **opts) if i_ is not None else parent.put(code, field=f_, **opts)
            elif case.get('entry') == 'slice1':  # the same replacement through the slice interface with one=True
                f_, i_ = path[-1]
                parent = node.parent
                if isinstance(parent.a, ast.Compare):
                    f_, i_ = '_all', (0 if f_ == 'left' else i_ + 1)
                parent.put_slice(code, i_, i_ + 1, f_, one=True, **opts)
            else:
                node.replace(code, **opts)
    except CaseTimeout:
        res.fail(cid, 'hang', f'no result within horizon\nparent={psrc!r} child={csrc!r}', case, case)
        return
    except RecursionError as exc:
        res.fail(cid, 'internal-RecursionError', f'parent={psrc!r} child={csrc!r}', case, case)
        return
    except Exception as exc:
        k = f'refused:{exc.__class__.__name__}'
        if exc.__class__.__name__ in ('AttributeError', 'TypeError', 'IndexError', 'KeyError', 'AssertionError',
                                      'UnboundLocalError', 'RuntimeError'):
            res.outcomes['internal-error-class:' + exc.__class__.__name__] += 1
            if exp_status in ('ok', 'ok-parse-only'):
                res.fail(cid, 'internal-error:' + exc.__class__.__name__,
                         f'{exc!r}\nparent={psrc!r} slot={O.path_str(path)} child={csrc!r} form={form}', case, case)
                return
        res.outcomes[k + ('/valid' if exp_status == 'ok' else '/' + exp_status)] += 1
        if case.get('entry') == 'slice1':
            return  # the slice interface may refuse what the element interface accepts; only wrong results count for this entry
        in_pattern = any(isinstance(O.get_path(ptree, path[:k]), ast.pattern) for k in range(len(path)))
        own_pars_only = (csrc.startswith('(') and '\n' in csrc) or (in_pattern and '(' in csrc and not csrc.endswith(')')) or (in_pattern and '\n' in csrc)  # a child that cannot be written without its parentheses / a dotted name with grouping parentheses inside (no such thing in a pattern)
        if exp_status == 'ok' and not isinstance(exc, NotImplementedError) and form in ('src', 'ast', 'fst') and \
                not (in_pattern and own_pars_only):  # expressions inside patterns cannot be parenthesized: refusing is right
            res.fail(cid, 'refused-valid-request:' + exc.__class__.__name__,
                     f'{exc!r}\nparent={psrc!r} slot={O.path_str(path)} child={csrc!r} form={form}\n'
                     f'expected={ast.unparse(exp)!r}', case, case)
        if verbose:
            print('refused', repr(exc))
        return
    out = root.src
    res.state('result', out)
    bad = live_vs_parse(root, 'Module')
    if bad:
        # input-side fact for the known-finding selector: the caller asked to keep the new code's own parentheses (pars=True)
        slot_parent = O.get_path(ptree, path[:-1])
        params = dict(case, multiline_into_pattern_value=bool('\n' in csrc and isinstance(slot_parent_ := O.get_path(ptree, path[:-1]), ast.MatchValue)),
                      pars_true_own_parens=bool(opts.get('pars') is True and form in ('srcpar', 'fstpar')),
                      slot=f'{slot_parent.__class__.__name__}.{path[-1][0]}',
                      child_kind={'Starred': 'Starred', 'Yield': 'Yield', 'YieldFrom': 'Yield'}.get(cast.__class__.__name__, 'other'))
        res.fail(cid, 'C01:source-does-not-parse' if bad.startswith('source does not parse') else 'C01:live-tree-differs-from-parse',
                 f'{bad}\nparent={psrc!r} slot={O.path_str(path)} child={csrc!r} form={form} opts={opts}', params, case)
        return
    if exp_status in ('ok', 'ok-parse-only'):
        res.traces += 1
        got = _SIMPLE.sub('', O.dump(ast.parse(out)))  # AnnAssign.simple is a flag pfst recomputes from the source
        want = _SIMPLE.sub('', O.dump(exp))
        if got != want:
            res.fail(cid, 'grouping-changed',
                     f'parent={psrc!r} slot={O.path_str(path)} child={csrc!r} form={form} opts={opts}\nresult={out!r}\n'
                     + O.first_diff(got, want), case, case)
            return
        res.nontriv(cid)
        res.outcomes['ok'] += 1
        res.sample({'parent': psrc, 'slot': O.path_str(path), 'child': csrc, 'form': form, 'result': out})
    else:
        res.outcomes['ok-unjudged:' + exp_status] += 1


def run_shard(desc, tier, res):
    base = PARENTS[desc['parent']]
    tree = ast.parse(base)
    slots = list(O.iter_slots(tree, ('expr', 'pattern')))
    lay_names = ('bare', 'par', 'parnl') if tier == 'quick' else ('bare', 'par', 'parnl', 'parcmt', 'parsp', 'par2')
    for path, parent, field, idx, child in slots:
        typ = O.field_info(parent, field)[0]
        can_par = typ == 'expr' or child.__class__.__name__ not in ('MatchStar',)
        for lay, psrc in U.wrap_layouts(base, child, lay_names if can_par else ('bare',)):
            for csrc, ml in _children(typ):
                forms = ['src', 'fst'] if ml else ['src', 'srcpar', 'ast', 'fst']
                if tier == 'thorough' and not ml:
                    forms.append('fstpar')
                if typ == 'pattern':
                    forms = [f for f in forms if f not in ('srcpar', 'fstpar')] + (
                        ['srcpar'] if not csrc.startswith('*') and ',' not in csrc.replace('(a, b)', '') else [])
                if '\\\n' in csrc:
                    forms = ['src']
                if typ == 'expr' and csrc in ('x', 'a + b') and lay == 'bare':
                    forms = forms + ['srccmt', 'srcnl', 'fstcmt']
                variants = [({'norm': True}, 'replace')]
                if lay == 'bare' and typ == 'expr' and (
                        (idx is not None and parent.__class__.__name__ in ('BoolOp', 'Compare', 'Tuple', 'List', 'Set', 'Call') and
                         field in ('values', 'comparators', 'elts', 'args')) or (parent.__class__.__name__ == 'Compare' and field == 'left')):
                    variants.append(({'norm': True}, 'slice1'))
                if tier == 'thorough':
                    variants += [({'norm': True, 'pars': True}, 'replace'), ({'norm': True}, 'put')]
                for form in forms:
                    for opts, entry in variants:
                        cid = (f'C09/{desc["parent"]}:{O.path_str(path)}<-{csrc!r}/lay={lay}/form={form}'
                               f'/{entry}{"/pars=True" if opts.get("pars") else ""}')
                        run_case({'id': cid, 'base': base, 'src': psrc, 'path': path, 'typ': typ, 'child': csrc,
                                  'form': form, 'opts': opts, 'entry': entry}, res)


def replay(rep, res):
    run_case(rep, res, verbose=True)

TECHNIQUE = 'bounded exhaustive enumeration (explicit-state, one-step) of slot x child x layout x form on the real code, judged by CPython parse of the substituted pure AST'
LEVEL_TEXT = ('every (parent kind, field) slot of the expression/pattern/statement grammar x every child kind x layouts x code '
              'forms is executed on the real implementation and compared with CPython; the bound (witness tables, layouts) is '
              'completed, not sampled')
LEVEL_NOTE = 'trusted: CPython ast.parse/unparse/compile; bounded to the witness tables in pfstmc/universe.py'
