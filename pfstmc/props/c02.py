"""C02 - an edited tree is observationally identical to a fresh parse of its own source.

bfs over edit histories x deviation over query interleavings: before each edit the environment performs no query
(default), the whole battery, or one query group on every node; after every edit battery(live) == battery(fresh twin)."""
from __future__ import annotations

import ast

from .. import battery as B
from .. import edits as E
from .. import oracle as O
from .. import explore as X
from ..programs import PROGRAMS

ID = 'C02'
LEVEL = 'model_checking'
TECHNIQUE = ('explicit-state bfs over edit histories with deviation-bounded interleaving of cache-populating queries; in every '
             'reached state a query battery on the live tree is compared with the same battery on a freshly built tree')
LEVEL_TEXT = ('all histories up to depth 2 over the edit alphabet x {no query, full battery, each of 7 query groups} before each '
              'edit are executed on the real objects; after every edit ~60 queries per node are compared with a fresh '
              'FST(root.src); nothing sampled')
LEVEL_NOTE = ('differential between two pfst executions as the property defines it (live vs fresh tree); node identity by '
              'grammar path; trusted: CPython ast for paths')
RULE = ('bfs x dev: transitions = edits applied (per query-interleaving variant); non-trivial = distinct (result state, variant) '
        'where the source changed; states = canonical (kind, indent, src, positioned dump); traces = battery comparisons')
ASSUMPTIONS = ['fresh twin is built with the same root kind and indent', 'norm=True, pars auto']
BOUNDS = {
    'quick': '49 programs; depth 1: 2 codes x (src, fst) + par()/unpar() x {no query, full battery before the edit}; each single query group '
             '(7) before the edit with the 1-code alphabet; depth 2 (no pre-queries): replace/remove/put_slice/insert/docstr/'
             'line-comment with 1 code after every distinct depth-1 state of 8 programs; exactly one node (the root or one block) queried '
             'before each edit of the comment/docstring/remove/insert alphabet; the fresh twin answers the battery in reverse order',
    'thorough': 'depth 1: 6 codes x 3 forms x 9 variants; depth 2: 2 codes from every distinct depth-1 state x 3 variants',
}

D2_QUICK = (0, 10, 11, 15, 22, 23, 28, 44)
VARIANTS_Q = ['none', 'full']
VARIANTS_ALL = ['none', 'full'] + list(B.GROUPS)


def shards(tier):
    parts = 2 if tier == 'quick' else 8
    out = []
    for i in range(len(PROGRAMS)):
        np = 12 if (tier == 'quick' and i in D2_QUICK) else (1 if tier == 'quick' else parts)
        for r in range(np):
            out.append({'prog': i, 'part': [r, np], 'mode': 'main'})
        out.append({'prog': i, 'mode': 'groups'})
        out.append({'prog': i, 'mode': 'single'})
    from .c01 import UNEVEN_TARGETS
    out += [{'prog': -1, 'uneven': i, 'mode': 'uneven'} for i in range(len(UNEVEN_TARGETS))]
    return out


def twin_battery(fst, root):
    t = fst.FST(root.src, root.a.__class__.__name__ if not isinstance(root.a, ast.Module) else 'exec')
    t.indent = root.indent
    return B.battery(t, reverse=True)  # opposite query order: answers must not depend on earlier read-only queries


def forced(op, root):
    """par(force=True) / unpar() on a node that cannot take the request is documented misuse: if it left source != tree, skip."""
    if op.get('op') in ('par', 'unpar'):
        from ..fstnav import live_vs_parse
        return bool(live_vs_parse(root, 'Module'))
    return False


def unparsable(root):
    """The edit left source Python rejects (a C01 violation, or par()/unpar() misuse): queries have no reference then.
    A tree whose source parses but whose positions / structure differ from it IS judged here: those are wrong answers."""
    try:
        ast.parse(root.src)
        return False
    except (SyntaxError, ValueError):
        return True


def check(fst, root, src0, hist, cid, variant, res):
    rep = {'src': src0, 'hist': hist, 'variant': variant}
    res.traces += 1
    try:
        live = B.battery(root)
        fresh = twin_battery(fst, root)
    except Exception as e:  # noqa: BLE001
        res.fail(cid, 'battery-raised:' + e.__class__.__name__, repr(e), {'variant': variant}, rep)
        return False
    if live != fresh:
        d = B.diff(live, fresh)
        kinds = sorted({x.split(':')[0].rsplit('.', 1)[-1] for x in d})
        res.fail(cid, 'query-differs-from-fresh-tree:' + ','.join(kinds)[:60],
                 f'start={src0!r}\nnow={root.src!r}\nvariant={variant}\n' + '\n'.join(d), {'variant': variant}, rep,
                 E.render(src0, hist))
        return False
    if root.a.f is not root or root.parent is not None:
        res.fail(cid, 'root-identity-lost', '', {}, rep)
        return False
    return True


def run_shard(desc, tier, res):
    import fst
    if desc['mode'] == 'uneven':  # multi-line slice codes whose lines are re-indented by different amounts (C01's `uneven` shard): positions afterwards
        from .c01 import UNEVEN_TARGETS, UNEVEN
        src0 = UNEVEN_TARGETS[desc['uneven']]
        for op in E.enumerate_ops(src0, **UNEVEN):
            for variant in ('none', 'full'):
                root = fst.FST(src0, 'exec')
                if variant == 'full':
                    B.battery(root, B.GROUPS)
                cid = f"C02/uneven{desc['uneven']}/{E.op_id(op)}/pre={variant}"
                res.evals += 1
                res.transitions += 1
                try:
                    E.apply(fst, root, op)
                except Exception:  # noqa: BLE001
                    continue
                if unparsable(root):
                    continue
                if check(fst, root, src0, [op], cid, variant, res):
                    res.nontriv(cid)
        return
    src0 = PROGRAMS[desc['prog']]
    if desc['mode'] == 'groups':  # depth 1, every single query group as the deviation
        for op in E.enumerate_ops(src0, nk=1 if tier == 'quick' else 3, nks=1, forms=('src',), opts=({},), extra=('par',)):
            for g in B.GROUPS:
                root = fst.FST(src0, 'exec')
                B.battery(root, (g,))
                cid = f"C02/p{desc['prog']}/pre={g}/{E.op_id(op)}"
                res.evals += 1
                res.transitions += 1
                try:
                    E.apply(fst, root, op)
                except Exception:  # noqa: BLE001
                    continue
                from ..fstnav import live_vs_parse
                if unparsable(root) or forced(op, root):
                    continue
                if check(fst, root, src0, [op], cid, g, res):
                    res.nontriv(cid)
        return
    if desc['mode'] == 'single':  # deviation: exactly ONE statement-like node (or the root) is queried before the edit
        from ..fstnav import live_vs_parse, node_at
        tree0 = ast.parse(src0)
        blocks = (ast.stmt, ast.excepthandler, ast.match_case)
        targets = [()] + [p for p, n in O.iter_nodes(tree0) if isinstance(n, blocks) and (
            tier == 'thorough' or any(isinstance(c, blocks) for c in ast.iter_child_nodes(n)))]  # quick: the root and every block
        ops = list(E.enumerate_ops(src0, nk=1, nks=1, forms=('src',), opts=({},), kinds=('line_comment', 'docstr', 'remove', 'insert', 'src_tail'),
                                   lc_texts=('a much longer comment', None)))
        # code whose string values depend on the indentation it is put at (a backslash-continued docstring): put at every statement position
        redent = [op for op in E.enumerate_ops(src0, nk=7, nks=1, forms=('src', 'fst'), opts=({},), kinds=('replace', 'insert'))
                  if op.get('code') and op['code'][0] == E.K_ONE['stmt'][6][0]]
        for op in redent:
            root = fst.FST(src0, 'exec')
            cid = f"C02/p{desc['prog']}/redent/{E.op_id(op)}"
            res.evals += 1
            res.transitions += 1
            try:
                E.apply(fst, root, op)
            except Exception:  # noqa: BLE001
                continue
            if unparsable(root):
                continue
            if check(fst, root, src0, [op], cid, 'none', res):
                res.nontriv(cid)
        for tp in targets:
            for op in ops:
                root = fst.FST(src0, 'exec')
                q = node_at(root, tp)
                try:
                    q.loc, q.bloc, q.src, q.own_src()
                except Exception:  # noqa: BLE001
                    pass
                cid = f"C02/p{desc['prog']}/pre=only:{O.path_str(tp) or '<root>'}/{E.op_id(op)}"
                res.evals += 1
                res.transitions += 1
                try:
                    E.apply(fst, root, op)
                except Exception:  # noqa: BLE001
                    continue
                if unparsable(root) or forced(op, root):
                    continue
                if check(fst, root, src0, [op], cid, 'only:' + O.path_str(tp), res):
                    res.nontriv(cid)
        return
    variants = VARIANTS_Q if tier == 'quick' else ['none', 'full', 'nav']
    for variant in variants:
        def on_pre(root, hist, op, variant=variant):
            if variant != 'none' and (not hist or tier == 'thorough'):
                B.battery(root, B.GROUPS if variant == 'full' else (variant,))

        def on_state(root, pre, hist, cid, c2, variant=variant):
            from ..fstnav import live_vs_parse
            if unparsable(root) or forced(hist[-1], root):
                return False
            ok = check(fst, root, src0, hist, cid + f'/pre={variant}', variant, res)
            if ok and c2[2] != pre[2]:
                res.nontriv(c2[2], c2[3], variant)
                res.sample({'start': src0, 'history': [E.op_id(o) for o in hist], 'variant': variant, 'result': c2[2]})
            return ok

        a1 = dict(nk=2, nks=1, forms=('src', 'fst'), opts=({},), extra=('par-lite',)) if tier == 'quick' else dict(nk=6, nks=3, opts=({},), extra=('par',))
        a2 = dict(nk=1, nks=1, forms=('src',), opts=({},), kinds=('replace', 'remove', 'put_slice', 'del_slice', 'insert',
                                                                  'setattr', 'delattr', 'docstr', 'line_comment')) \
            if tier == 'quick' else dict(nk=2, nks=1, forms=('src',), opts=({},))
        depth = 2
        if tier == 'quick' and (variant == 'full' or desc['prog'] not in D2_QUICK):
            depth = 1
        if tier == 'quick' and variant == 'none':
            a2['kinds'] = ('replace', 'remove', 'put_slice', 'insert', 'docstr', 'line_comment')
        X.bfs(fst, src0, depth, [a1, a2], tuple(desc['part']), res, on_state, cid_prefix=f"C02/p{desc['prog']}/",
              on_pre=on_pre)


def replay(rep, res):
    import fst
    root = fst.FST(rep['src'], 'exec')
    v = rep.get('variant', 'none')
    for i, op in enumerate(rep['hist']):
        if v != 'none' and i == 0:
            B.battery(root, B.GROUPS if v == 'full' else (v,))
        E.apply(fst, root, op)
        print(E.op_id(op), '->', repr(root.src))
    check(fst, root, rep['src'], rep['hist'], 'replay', v, res)
