"""C19 - coercion yields a valid node of the requested kind with the same content.

enum engine over the full matrix: source witnesses of every node kind (incl. special slices) x every parse mode and AST
type as target x layouts x operand form (FST root, non-root FST, pure AST) x copy x coerce option."""
from __future__ import annotations

import ast
import io
import keyword
import tokenize

from .. import oracle as O
from ..core import CaseTimeout, deadline
from ..fstnav import live_vs_parse

ID = 'C19'
LEVEL = 'model_checking'
TECHNIQUE = ('bounded exhaustive enumeration of the (source kind, target mode, layout, operand form, copy) coercion matrix on the real '
             'as_()/FST(node, mode)/put code, judged by re-parsing in the requested mode, token-level leaf conservation and '
             'differential route equality')
LEVEL_TEXT = ('every witness (638 source witnesses x 6 layouts) x every target (45 parse modes + 60 AST types) x 3 operand forms x copy modes is '
              'executed on the real code; each result is checked to be a root of the requested kind that re-parses in that mode to '
              'itself, to conserve the operand\'s leaves in order, to agree between the formatted and the pure-AST route and to '
              'leave the operand untouched in copy mode; put-with-coercion is compared with put of the explicitly coerced node')
LEVEL_NOTE = ('trusted: CPython tokenize for leaves, ast for structure; the requested mode is re-parsed with pfst itself (C05 judges that '
              'parser against CPython)')
RULE = ('enum: case = (witness, layout, target, operand form, copy); non-trivial = distinct successful coercions to a different kind; '
        'states = distinct result sources; traces = coercions checked')
ASSUMPTIONS = ['any exception class counts as "raises" except when the two routes disagree about success']
BOUNDS = {'quick': '638 witnesses (194 hand-written + every parameter-list shape + every arrangement of <= 3 call arguments) x 6 layouts (bare, parenthesized, over lines, with comments, behind one / two line continuations) x 104 targets x {FST root, pure AST} + non-root and copy variants on the bare layout; 21 put slots',
          'thorough': 'all operand forms x all layouts'}

WITNESSES = [
    ('x', 'expr'), ('a.b.c', 'expr'), ('a[b]', 'expr'), ('a, b', 'expr'), ('(a, b)', 'expr'), ('[a, b]', 'expr'), ('{a, b}', 'expr'),
    ('{a: b}', 'expr'), ('{a: b, **c}', 'expr'), ('f(a, k=b)', 'expr'), ('f(a, *b, k=c, **d)', 'expr'), ('a + b', 'expr'), ('a and b', 'expr'),
    ('a < b', 'expr'), ('a < b <= c', 'expr'), ('1', 'expr'), ("'s'", 'expr'), ('*a', 'expr'), ('a if b else c', 'expr'),
    ('lambda a, b=1: a', 'expr'), ('a: b', 'expr_slice'), ('a:b:c', 'Slice'), ('[*a, b]', 'expr'), ('()', 'expr'), ('[]', 'expr'),
    ('x = 1', 'stmt'), ('x', 'stmt'), ('a, b', 'stmt'), ('x: int = 1', 'stmt'), ('del a, b', 'stmt'), ('import a, b as c', 'stmt'),
    ('from m import a, b as c', 'stmt'), ('global a, b', 'stmt'), ('with a as b, c: pass', 'stmt'), ('a = b = c', 'stmt'),
    ('x\ny', 'exec'), ('', 'exec'), ('x', 'eval'),
    ('a', 'arg'), ('a: int', 'arg'), ('k=v', 'keyword'), ('**kw', 'keyword'), ('m', 'alias'), ('m.n as o', 'alias'), ('a as b', 'withitem'),
    ('a', 'withitem'), ('a', 'pattern'), ('[a, b]', 'pattern'), ('a, *b', 'pattern'), ('{1: a, **r}', 'pattern'), ('C(a, k=b)', 'pattern'),
    ('a | b', 'pattern'), ('1', 'pattern'), ('a.b', 'pattern'), ('a as b', 'pattern'), ('a, b=1, *c, d, **e', 'arguments'),
    ('a, b', 'arguments'), ('', 'arguments'), ('T', 'type_param'), ('T: int', 'type_param'), ('*U', 'type_param'),
    ('for a in b', 'comprehension'), ('for a in b if c', 'comprehension'),
    ('a, *b, k=c', '_arglikes'), ('a, b', '_arglikes'), ('m, n as o', '_aliases'), ('a as b, c', '_withitems'), ('@a\n@b', '_decorator_list'),
    ('a = b =', '_Assign_targets'), ('if a if b', '_comprehension_ifs'), ('T, *U', '_type_params'), ('for a in b for c in d', '_comprehensions'),
    ('except A: pass', 'ExceptHandler'), ('except A: pass\nexcept B: pass', '_ExceptHandlers'), ('case 1: pass', 'match_case'),
    ('case a: pass\ncase _: pass', '_match_cases'), ('a, k=b', '_pattern_attrlikes'),
    ('+', 'operator'), ('and', 'boolop'), ('not', 'unaryop'), ('is not', 'cmpop'),
    ('*a, b', '_arglikes'), ('x, *a, b, c=1, **k', '_arglikes'), ('*a, b, **k', '_arglikes'), ('a, b=1, /, c, *, d, e=2', 'arguments'),
    ('*, a', 'arguments'), ('a.b.c.d', 'expr'), ('m.n.o', 'alias'), ('f(*a, b, **c)', 'expr'), ('C(a, b, k=c, l=d)', 'pattern'),
    ('{1: a, 2: b}', 'pattern'), ('[a, [b, c], *d]', 'pattern'), ('é, ü', 'expr'),
]


def _gen_witnesses():
    """Every shape of a parameter list (positional-only / plain / vararg or bare star / keyword-only / kwarg, each with and
    without defaults and annotations where that changes the route) and every arrangement of up to three call arguments."""
    import itertools
    out = []
    for po, pl, va, ko, kw in itertools.product(('', 'p, /', 'p=(1), /'), ('', 'a', 'a=2', 'a: int = 2'), ('', '*', '*v', '*v: t'),
                                                ('', 'k', 'k=None', 'k, j=(0)', 'k: s = 3'), ('', '**w')):
        src = ', '.join(x for x in (po, pl, va, ko, kw) if x)
        try:
            ast.parse(f'def f({src}): pass')
        except SyntaxError:
            continue
        if src and (src, 'arguments') not in WITNESSES:
            out.append((src, 'arguments'))
    for n in (1, 2, 3):
        for ks in itertools.product('psKd', repeat=n):
            src = ', '.join({'p': f'a{i}', 's': f'*b{i}', 'K': f'k{i}=c{i}', 'd': f'**d{i}'}[k] for i, k in enumerate(ks))
            try:
                ast.parse(f'f({src})')
            except SyntaxError:
                continue
            if (src, '_arglikes') not in WITNESSES:
                out.append((src, '_arglikes'))
    return out


N_HAND_WITNESSES = len(WITNESSES)
WITNESSES += _gen_witnesses()
WITNESSES += [  # statements that carry trivia a coercion has to strip: trailing semicolons, comments
    ('f(x);', 'stmt'), ('[a, b];', 'stmt'), ('Point(x=0) ;', 'stmt'), ('x;  # c', 'stmt'), ('a = b;', 'stmt'), ('x  # c', 'stmt'),
    ('del a, b;', 'stmt'), ('import a, b;', 'stmt'),
    # undelimited sequences whose first / last element carries its own delimiters
    ('[a], [b]', 'pattern'), ('(a, b), (c)', 'pattern'), ('[a], b', 'pattern'), ('a, [b]', 'pattern'), ('[a], [b]', 'expr'),
    ('(a), (b)', 'expr'), ('{a}, {b: c}', 'expr'), ('(a)[0], (b)', 'expr'),
    # names and constants that mean something else in another kind: the wildcard '_', singletons, signed / complex numbers
    ('_', 'arguments'), ('_, a', 'arguments'), ('_=1, *_a', 'arguments'), ('_', 'expr'), ('_, a', 'expr'), ('[_, *_]', 'expr'),
    ('f(_, k=_)', 'expr'), ('_', 'pattern'), ('a, _', 'pattern'), ('C(_, k=_)', 'pattern'), ('{1: _}', 'pattern'), ('_ | a', 'pattern'),
    ('_, k=_', '_arglikes'), ('_', 'arg'), ('k=_', 'keyword'), ('_, a', '_pattern_attrlikes'), ('_', 'type_param'),
    # grouping parentheses inside the operand at places where the target kind has no parentheses (dotted names, call functions, **rest)
    ('(a.b).c', 'expr'), ('((a).b).c.d', 'expr'), ('{(a.b).c: x}', 'expr'), ('(m.s).C(x)', 'expr'), ('(f)(a)', 'expr'), ('{1: a, **(r)}', 'expr'),
    ('(a.b).c | d', 'expr'), ('[(a), (b.c)]', 'expr'), ('f(k=(a.b).c)', 'expr'), ('(a)', 'expr'), ('((a, b))', 'expr'),
    # a container whose only (or first / last) element is itself an undelimited sequence or needs grouping in its new home
    ('a, b =', '_Assign_targets'), ('*a, b =', '_Assign_targets'), ('a, b = c =', '_Assign_targets'), ('x = a, b =', '_Assign_targets'),
    ('a, (b, c) =', '_Assign_targets'), ('a.x, b[0] =', '_Assign_targets'), ('(a, b) =', '_Assign_targets'), ('[a, b] = c, =', '_Assign_targets'),
    ('@(a, b)', '_decorator_list'), ('@a if b else c\n@(x := d)', '_decorator_list'), ('(a, b) as c', 'withitem'), ('(a, b)', 'withitem'),
    ('(a, b) as c, (d, e)', '_withitems'), ('if (a, b)', '_comprehension_ifs'), ('if (a := b) if (yield)', '_comprehension_ifs'),
    ('a:b, c', 'expr_slice'), ('a, b = c, d', 'stmt'), ('a = b, = c', 'stmt'), ('(x := 1)', 'expr'), ('(yield)', 'expr'),
    ('(yield a, b)', 'expr'), ('a if b else c, d', 'expr'), ('(a, b), c', 'expr'), ('*a, b', 'expr'), ('(*a, b), [*c]', 'expr'),
    ('del (a, b), c', 'stmt'), ('for a, b in c, d: pass', 'stmt'), ('k=(a, b)', 'keyword'), ('a, k=(b, c)', '_arglikes'),
    ('(a, b), *c', '_arglikes'), ('T: (int, str)', 'type_param'), ('a: (b, c)', 'arg'), ('a=(b, c), *d', 'arguments'),
    # signed / complex number forms: which of them are value patterns is decided by the parts (real +- imaginary, sign only on a number)
    ('-1 + 2j', 'expr'), ('-1j + 2j', 'expr'), ('-(3j) - (4j)', 'expr'), ('1j + 2j', 'expr'), ('-1j', 'expr'), ('-1.5 - 0j', 'expr'),
    ('(-(1)) + (2j)', 'expr'), ('-True + 1j', 'expr'), ('+1 + 1j', 'expr'), ('-a + 1j', 'expr'), ('1 + 2', 'expr'), ('1 - -2j', 'expr'),
    ('--1', 'expr'), ('-1 + 2j | 3', 'expr'), ('[-1j + 2j, -0 - 0j]', 'expr'), ('{-1 + 1j: a, -2j - 1j: b}', 'expr'),
    ('(a) | b | c', 'pattern'), ('((a)) | b | (c) | d', 'pattern'), ('(\n a) | b | c', 'pattern'), ('(a | b) | c | (d)', 'pattern'),
    ('None, True', 'expr'), ("[None, 1, -1, 's', 1+2j, -1-2j]", 'expr'), ('None, -1, 1+2j', 'pattern'), ('_ as a', 'withitem'),
]

MODES = ['all', 'strict', 'exec', 'eval', 'single', 'stmts', 'stmt', 'ExceptHandler', '_ExceptHandlers', 'match_case', '_match_cases',
         'expr', 'expr_all', 'expr_arglike', 'expr_slice', 'Tuple_elt', 'Tuple', '_Assign_targets', '_decorator_list', '_arglike',
         '_arglikes', 'boolop', 'operator', 'unaryop', 'cmpop', 'comprehension', '_comprehensions', '_comprehension_ifs', 'arguments',
         'arguments_lambda', 'arg', 'keyword', 'alias', '_aliases', 'Import_name', '_Import_names', 'ImportFrom_name',
         '_ImportFrom_names', 'withitem', '_withitems', 'pattern', '_pattern_attrlikes', 'type_param', '_type_params']
TYPES = ['Module', 'Expression', 'Interactive', 'Expr', 'Assign', 'AnnAssign', 'Delete', 'Import', 'ImportFrom', 'Global', 'Nonlocal', 'With',
         'Name', 'Attribute', 'Subscript', 'Tuple', 'List', 'Set', 'Dict', 'Call', 'BinOp', 'BoolOp', 'Compare', 'Constant', 'Starred',
         'IfExp', 'Lambda', 'Slice', 'MatchValue', 'MatchSequence', 'MatchMapping', 'MatchClass', 'MatchOr', 'MatchAs', 'MatchStar',
         'MatchSingleton', 'TypeVar', 'TypeVarTuple', 'ParamSpec', 'Add', 'And', 'Not', 'IsNot', 'ListComp', 'GeneratorExp', 'JoinedStr',
         'Await', 'Yield', 'NamedExpr', 'UnaryOp', 'Return', 'Pass', 'If', 'For', 'FunctionDef', 'ClassDef', 'Try', 'Match', 'Raise', 'Assert']
TARGETS = MODES + TYPES


def undelimited_matchseq(src):
    """Is src a sequence pattern written without enclosing brackets ('a, *b', '[a], [b]')?"""
    try:
        pat = ast.parse(f'match _:\n case {src}: pass').body[0].cases[0].pattern
    except SyntaxError:
        return False
    if not isinstance(pat, ast.MatchSequence):
        return False
    toks = [t.string for t in tokenize.generate_tokens(io.StringIO(src).readline) if t.type == tokenize.OP and t.string in '()[]{}']
    if not toks or src.strip()[0] not in '([' or src.strip()[-1] not in ')]':
        return True
    depth = 0
    for i, t in enumerate(toks):
        depth += 1 if t in '([{' else -1
        if depth == 0:
            return i != len(toks) - 1  # the first bracket closes before the end: it belongs to the first element
    return True


def layouts(src, mode, tier):
    yield 'bare', src
    if mode == 'expr' and src and not src.startswith('*') and '\n' not in src:
        yield 'par', f'({src})'
        yield 'ml', f'(\n {src}\n)'
        yield 'cmt', f'( # c\n {src} # d\n)'
        yield 'cont', f'\\\n  {src}'          # the source of the operand starts with a line continuation, the node stands indented
        yield 'contml', f'\\\n  \\\n   (\n{src}\n   )  '


def leaves(src):
    """identifiers (split on dots by the tokenizer), numbers and strings in source order."""
    try:
        toks = list(tokenize.generate_tokens(io.StringIO(src).readline))
    except (tokenize.TokenError, SyntaxError, IndentationError):
        return None
    out = []
    for t in toks:
        if t.type == tokenize.NAME and not keyword.iskeyword(t.string):
            out.append(t.string)
        elif t.type == tokenize.NAME and t.string in ('None', 'True', 'False'):
            out.append(t.string)
        elif t.type in (tokenize.NUMBER, tokenize.STRING):
            out.append(t.string)
    return out


def mk_operand(fst, src, mode, form):
    """(operand, cleanup info)"""
    if form == 'fst':
        return fst.FST(src, mode)
    if form == 'ast':
        f = fst.FST(src, mode)
        return f.copy_ast() if hasattr(f, 'copy_ast') else ast.parse(src)
    if form == 'nonroot':
        f = fst.FST(src, mode)
        a = f.a
        if isinstance(a, ast.expr):
            host = fst.FST('zz = [q]', 'exec')
            host.body[0].value.elts[0].replace(f)
            return host.body[0].value.elts[0]
        if isinstance(a, ast.stmt):
            host = fst.FST('if zz:\n    pass', 'exec')
            host.body[0].body[0].replace(f)
            return host.body[0].body[0]
        return None
    raise ValueError(form)


def check(fst, wi, lay, lsrc, target, form, copy, res):
    src, mode = WITNESSES[wi]
    cid = f'C19/w{wi}:{src!r}/{lay}/->{target}/{form}/copy={copy}'
    rep = {'wi': wi, 'lay': lay, 'lsrc': lsrc, 'target': target, 'form': form, 'copy': copy}
    params = {'target': target, 'form': form, 'mode': mode, 'layout': lay}
    res.evals += 1
    res.transitions += 1
    try:
        op = mk_operand(fst, lsrc, mode, form)
    except Exception:  # noqa: BLE001
        return None
    if op is None:
        return None
    is_fst = isinstance(op, fst.FST)
    op_src = op.src if is_fst and op.is_root else (op.own_src() if is_fst else lsrc)
    op_root = op.root if is_fst else None
    pre = (op_root.src, O.dump_pos(op_root.a)) if is_fst else O.dump(op)
    op_kind = (op.a if is_fst else op).__class__
    params['operand'] = op_kind.__name__
    try:
        with deadline(10):
            if is_fst:
                out = op.as_(target, copy, norm=True)
            else:
                out = fst.FST(op, target, norm=True)
    except CaseTimeout:
        res.fail(cid, 'hang', '', params, rep)
        return None
    except Exception as e:  # noqa: BLE001
        res.outcomes['raised:' + e.__class__.__name__] += 1
        return ('raised', e)
    res.traces += 1
    if out.parent is not None or out.a.f is not out:
        res.fail(cid, 'result-not-a-root', f'src={lsrc!r}', params, rep)
        return None
    tcls = getattr(ast, target, None) if target in TYPES else None
    if tcls is not None and not isinstance(out.a, tcls):
        res.fail(cid, 'result-not-of-requested-kind', f'src={lsrc!r} got={out.a.__class__.__name__}', params, rep)
        return None
    # parses in the requested mode to itself
    try:
        back = fst.FST(out.src, target if target not in ('all', 'strict') else out.a.__class__.__name__)
    except Exception as e:  # noqa: BLE001
        res.fail(cid, 'result-does-not-parse-in-requested-mode', f'src={lsrc!r}\nresult={out.src!r}\n{e!r}', params, rep)
        return None
    if O.dump_pos(back.a) != O.dump_pos(out.a):
        if O.dump(back.a) != O.dump(out.a):
            res.fail(cid, 'result-tree-differs-from-parse-of-its-source', f'src={lsrc!r}\nresult={out.src!r}\n' +
                     O.first_diff(O.dump(out.a), O.dump(back.a)), params, rep)
        else:
            res.fail(cid, 'result-positions-differ-from-parse-of-its-source', f'src={lsrc!r}\nresult={out.src!r}\n' +
                     O.first_diff(O.dump_pos(out.a), O.dump_pos(back.a)), params, rep)
        return None
    # leaves conserved
    l0, l1 = leaves(op_src), leaves(out.src)
    if l0 is not None and l1 is not None and l0 != l1:
        res.fail(cid, 'leaves-not-conserved', f'src={lsrc!r}\nresult={out.src!r}\noperand leaves={l0}\nresult leaves ={l1}', params, rep)
        return None
    # same kind requested: same object (copy=False, root operand)
    if is_fst and form == 'fst' and not copy and tcls is not None and isinstance(op_kind, type) and issubclass(op_kind, tcls) and out is not op:
        res.fail(cid, 'already-requested-kind-but-not-returned-unchanged', f'src={lsrc!r}', params, rep)
        return None
    # copy mode / non-root operand: operand untouched
    if is_fst and (copy or form == 'nonroot'):
        try:
            now = (op_root.src, O.dump_pos(op_root.a))
        except Exception as e:  # noqa: BLE001
            now = repr(e)
        if now != pre:
            res.fail(cid, 'copy-mode-coercion-disturbed-operand', f'src={lsrc!r}\nbefore={pre[0]!r}\nnow={now!r}'[:900], params, rep)
            return None
    if not is_fst and O.dump(op) != pre:
        res.fail(cid, 'pure-ast-operand-modified', f'src={lsrc!r}', params, rep)
        return None
    res.state(out.src, out.a.__class__.__name__)
    if out.a.__class__ is not op_kind:
        res.nontriv(wi, lay, target, form, copy)
    res.outcomes['ok'] += 1
    return ('ok', O.dump(out.a), out.src)


def run_witness(fst, wi, tier, res):
    src, mode = WITNESSES[wi]
    for lay, lsrc in layouts(src, mode, tier):
        for target in TARGETS:
            r_f = check(fst, wi, lay, lsrc, target, 'fst', False, res)
            r_a = check(fst, wi, lay, lsrc, target, 'ast', False, res)
            # formatted route and pure-AST route agree
            if r_f is not None and r_a is not None:
                cid = f'C19/w{wi}:{src!r}/{lay}/->{target}/routes'
                rep = {'wi': wi, 'lay': lay, 'lsrc': lsrc, 'target': target, 'form': 'routes', 'copy': False}
                if r_f[0] != r_a[0]:
                    who = r_f if r_f[0] == 'raised' else r_a
                    res.fail(cid, 'routes-disagree:one-raises', f'src={lsrc!r} target={target}\nfst route={r_f[0]} ast route={r_a[0]}\n{who[1]!r}',
                             {'target': target, 'mode': mode, 'exc': who[1].__class__.__name__}, rep)
                elif r_f[0] == 'ok' and r_f[1] != r_a[1] and not (mode == 'pattern' and undelimited_matchseq(src)):  # an undelimited MatchSequence has no pure-AST spelling
                    res.fail(cid, 'routes-disagree:structure', f'src={lsrc!r} target={target}\nfst route={r_f[2]!r}\nast route={r_a[2]!r}',
                             {'target': target, 'mode': mode}, rep)
            if lay == 'bare' or tier == 'thorough':
                check(fst, wi, lay, lsrc, target, 'fst', True, res)
                check(fst, wi, lay, lsrc, target, 'nonroot', False, res)
    res.sample({'witness': src, 'mode': mode})


SLOTS = [
    ('x = []', lambda r: r.body[0], 'value', 'expr'),
    ('def f(): pass', lambda r: r.body[0], 'args', 'arguments'),
    ('f()', lambda r: r.body[0].value, '_args', '_arglikes'),
    ('import z', lambda r: r.body[0], 'names', '_aliases'),
    ('with z: pass', lambda r: r.body[0], 'items', '_withitems'),
    ('match s:\n case z: pass', lambda r: r.body[0].cases[0], 'pattern', 'pattern'),
    ('del z', lambda r: r.body[0], 'targets', 'Tuple'),
    ('class C(z): pass', lambda r: r.body[0], '_bases', '_arglikes'),
    ('def f[Z](): pass', lambda r: r.body[0], 'type_params', '_type_params'),
    ('match s:\n case C(z): pass', lambda r: r.body[0].cases[0].pattern, '_attrs', '_pattern_attrlikes'),
    ('match s:\n case [z]: pass', lambda r: r.body[0].cases[0].pattern, 'patterns', 'pattern'),
    ('y = [x for z in w]', lambda r: r.body[0].value, 'generators', '_comprehensions'),
    ('@z\ndef f(): pass', lambda r: r.body[0], 'decorator_list', '_decorator_list'),
    ('z = v', lambda r: r.body[0], 'targets', '_Assign_targets'),
    ('y = [z]', lambda r: r.body[0].value, 'elts', 'List'),
    ('y = {z: 1}', lambda r: r.body[0].value, '_all', 'Dict'),
    ('if c:\n    z', lambda r: r.body[0], 'body', 'stmts'),
    ('from m import z', lambda r: r.body[0], 'names', '_aliases'),
    ('global z', lambda r: r.body[0], 'names', 'Tuple'),
    ('y = f(k=z)', lambda r: r.body[0].value.keywords[0], 'value', 'expr'),
    ('for z in w: pass', lambda r: r.body[0], 'target', 'expr'),
]


def run_slots(fst, res):
    for wi, (src, mode) in enumerate(WITNESSES):
        for si, (host, get, field, smode) in enumerate(SLOTS):
            cid = f'C19/put/w{wi}:{src!r}->slot{si}:{field}'
            rep = {'put': [wi, si]}
            res.evals += 1
            outs = []
            for explicit in (False, True):
                try:
                    code = fst.FST(src, mode)
                    if explicit:
                        code = code.as_(smode)
                    root = fst.FST(host, 'exec')
                    n = get(root)
                    if field in ('value', 'args', 'pattern', 'target'):
                        n.put(code, field=field, norm=True)
                    else:
                        n.put_slice(code, 0, 'end', field, norm=True)
                    bad = live_vs_parse(root, 'Module')
                    if bad:
                        res.fail(cid + ('/explicit' if explicit else '/implicit'), 'C01-after-coercing-put', f'host={host!r} code={src!r} ({mode})\n{bad}', {'slot': field, 'code_has_comment': '#' in src}, rep)
                    outs.append(('ok', O.dump(ast.parse(root.src)), root.src))
                    res.transitions += 1
                except Exception as e:  # noqa: BLE001
                    outs.append(('raised', e.__class__.__name__, repr(e)))
            res.traces += 1
            if outs[0][0] == 'ok' and outs[1][0] == 'ok' and outs[0][1] != outs[1][1]:
                res.fail(cid, 'coercing-put-differs-from-put-of-coerced-node', f'implicit={outs[0][2]!r}\nexplicit={outs[1][2]!r}', {}, rep)
            elif outs[0][0] != outs[1][0]:
                res.outcomes[f'put-routes:{outs[0][0]}/{outs[1][0]}'] += 1
                if outs[0][0] == 'ok':
                    # implicit coercion succeeded where explicit as_() refused: only a violation if the implicit result is not C01
                    pass
            elif outs[0][0] == 'ok':
                res.nontriv('put', wi, si)


def shards(tier):
    return [{'w': i} for i in range(len(WITNESSES))] + [{'slots': True}]


def run_shard(desc, tier, res):
    import fst
    if desc.get('slots'):
        run_slots(fst, res)
    else:
        run_witness(fst, desc['w'], tier, res)


def replay(rep, res):
    import fst
    if 'put' in rep:
        run_slots(fst, res)
    elif rep['form'] == 'routes':
        a = check(fst, rep['wi'], rep['lay'], rep['lsrc'], rep['target'], 'fst', False, res)
        b = check(fst, rep['wi'], rep['lay'], rep['lsrc'], rep['target'], 'ast', False, res)
        print('fst route:', a)
        print('ast route:', b)
        if a is not None and b is not None and a[:2] != b[:2]:
            res.fail('replay', 'routes-disagree', '')
    else:
        print(check(fst, rep['wi'], rep['lay'], rep['lsrc'], rep['target'], rep['form'], rep['copy'], res))
