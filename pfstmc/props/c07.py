"""C07 - copying never disturbs the tree; extraction is faithful and loses nothing.

enum engine: every node and every slice [i:j] of every list-like field of every program x option settings;
copy/get/get_slice leave the source tree untouched, the result is a self-contained tree that re-parses to itself and is
structurally the original sub-tree / sub-list; cut == copy + delete; tokens and comments are conserved."""
from __future__ import annotations

import ast
import collections
import re
import tokenize

from .. import edits as E
from .. import oracle as O
from ..core import CaseTimeout, deadline
from ..fstnav import node_at
from ..programs import PROGRAMS

ID = 'C07'
LEVEL = 'model_checking'
TECHNIQUE = ('bounded exhaustive enumeration of (program, node or slice, option setting) on the real copy/get/get_slice/cut code with '
             'invariants judged by CPython (re-parse, structure, token multisets) and a differential cut == copy + delete law')
LEVEL_TEXT = ('every node and every slice of every list-like field of 150+ programs and 14 slice-rooted trees x 9 option settings is copied and cut on the real '
              'code; source tree identity, self-containedness, structural faithfulness, cut/copy/delete agreement and token/comment '
              'conservation are checked on every case')
LEVEL_NOTE = ('trusted: CPython ast/tokenize; results whose root kind CPython cannot parse alone are re-parsed with pfst in the same '
              'mode (C05 judges that parser); docstring re-indentation and ctx reset are normalised as the property allows')
RULE = ('enum: case = (program, node path or field[i:j], options); non-trivial = distinct extracted pieces with >= 1 token; states = '
        'distinct (program, piece source); traces = cases compared')
ASSUMPTIONS = ['norm=True', 'separators, brackets, elif/else/if keywords and layout tokens are not conserved by definition']
BOUNDS = {'quick': '135 programs (shared + layout + multi-line + f-string-field programs); all nodes and all slices incl. virtual fields (_all/_args/_bases) with 6 option settings',
          'thorough': 'all 9 option settings'}

OPTS = [{}, {'trivia': False}, {'trivia': ('all', 'all')}, {'pars': True}, {'trivia': 'all'}, {'trivia': 'block+1'},
        {'docstr': False}, {'docstr': 'strict'}, {'pars_walrus': True, 'pars_arglike': False}]
SEP = {',', ';', '(', ')', '[', ']', '{', '}', '=', '|', '@', ':', 'if', 'elif', 'else', 'and', 'or', '\\', 'case', 'for', 'in',
       'async', 'except', 'as', '*', '**', 'is', 'not', '<', '>', '==', '!=', '<=', '>=', 'from', '->', 'finally', 'import',
       'with', 'lambda', 'del', 'global', 'nonlocal'}
_CTX = re.compile(r"ctx=(Store|Del)\(\)")
_DOC = re.compile(r"\\n\s+")


_WS = re.compile(r'[ \t]+')


def cont_docs(*trees):
    """Values (runs of blanks collapsed) of the strings in docstring position (an expression statement) that are spread over
    several source lines by backslash-newline: the documented re-indentation of docstring lines changes the blanks at the start
    of their continuation lines, which are part of the value although no line break is."""
    out = set()
    for t in trees:
        for a in (t if isinstance(t, list) else [t]):
            for n in ast.walk(a):
                if isinstance(n, ast.Expr) and isinstance(v := n.value, ast.Constant) and isinstance(v.value, str) and \
                        getattr(v, 'end_lineno', None) is not None and v.end_lineno - v.lineno > v.value.count('\n'):
                    out.add(_WS.sub(' ', v.value))
    return out


def sdump(a, cont=()):
    """structure dump: ctx reset to Load; strings in docstring position (expression statements) are compared modulo the documented
    re-indentation of docstring lines: blanks at the start of their continuation lines are dropped, and those whose blank-collapsed
    value is in `cont` (see cont_docs) have their runs of blanks collapsed. Every other string is compared exactly."""
    d = ast.dump(a)
    for n in ast.walk(a) if isinstance(a, ast.AST) else ():
        if isinstance(n, ast.Expr) and isinstance(v := n.value, ast.Constant) and isinstance(v.value, str):
            c = v.value
            if cont and (cc := _WS.sub(' ', c)) in cont:
                c = cc
            c = _DOCV.sub('\n', c)
            if c != v.value:
                d = d.replace(f'Expr(value=Constant(value={v.value!r}', f'Expr(value=Constant(value={c!r}')
    return _CTX.sub('ctx=Load()', d)


_DOCV = re.compile(r'\n[ \t]+')


def toks(src, stmts=True):
    """multiset of the significant tokens of `src`; stmts=False: `src` is an expression-like fragment (no docstring positions)"""
    ts = O.tokens(src)
    if ts is None:
        return None
    c = collections.Counter()
    prev = None
    for k, t in enumerate(ts):
        if t.type in O.SIG_TOKS and t.string not in SEP:
            s = t.string.replace('\n', '\\n')
            if stmts and t.type == tokenize.STRING and (prev is None or prev.type in (tokenize.NEWLINE, tokenize.INDENT, tokenize.DEDENT)) and \
                    (k + 1 == len(ts) or ts[k + 1].type in (tokenize.NEWLINE, tokenize.COMMENT)):
                s = _DOC.sub(r'\\n', s)  # a string statement (docstring position): lines may be re-indented
            c[s] += 1
        if t.type not in (tokenize.NL, tokenize.COMMENT):
            prev = t
    return c


def header_comments_of_emptied_blocks(before, after):
    """Comments sitting on an 'else:' / 'finally:' / 'except...:' header line that exists before and not after."""
    out = collections.Counter()
    hb = [l for l in before.split('\n') if re.match(r'\s*(else|finally)\s*:', l)]
    ha = [l for l in after.split('\n') if re.match(r'\s*(else|finally)\s*:', l)]
    for l in hb:
        if l in ha:
            ha.remove(l)
            continue
        m = re.search(r'#.*$', l)
        if m:
            out[m.group(0)] += 1
    return out


def first_list(a, field=None):
    if field and isinstance(getattr(a, field, None), list):
        return getattr(a, field)
    for f in getattr(a, '_fields', ()):
        v = getattr(a, f, None)
        if isinstance(v, list) and (not v or isinstance(v[0], ast.AST)):
            return v
    return None


def reparse_ok(fst, piece):
    """The extracted tree parses on its own to itself."""
    kind = piece.a.__class__.__name__
    src = piece.src
    try:
        ref = O.parse_as_root(src, kind)
    except (SyntaxError, ValueError):
        ref = 'ERR'
    if ref == 'ERR' or ref is None:
        try:
            ref = fst.FST(src, kind).a
        except Exception as e:  # noqa: BLE001
            return f'extracted source does not parse as {kind}: {e!r}'
    if O.dump_pos(ref) != O.dump_pos(piece.a):
        return 'extracted tree != parse of its own source: ' + O.first_diff(O.dump_pos(piece.a), O.dump_pos(ref))
    return None


def check_extract(fst, pi, src, what, opts, res):
    """what = ('node', path) | ('slice', path, field, i, j)"""
    tree = ast.parse(src)
    oid = ','.join(f'{k}={v!r}' for k, v in sorted(opts.items()))
    if what[0] == 'node':
        path = what[1]
        orig = O.get_path(tree, path)
        label = O.path_str(path)
    else:
        _, path, field, i, j = what
        orig = getattr(O.get_path(tree, path), field)[i:j] if not field.startswith('_') else None
        label = f'{O.path_str(path)}.{field}[{i}:{j}]'
    cid = f'C07/p{pi}/{label}/{oid}'
    rep = {'prog': pi, 'what': list(what), 'opts': opts}
    params = {'kind': what[0], 'opts': oid}
    o = dict(opts)
    o.setdefault('norm', True)

    def get(root, cut):
        n = node_at(root, path)
        if what[0] == 'node':
            return n.cut(**o) if cut else n.copy(**o)
        return n.get_slice(i, j, field, cut=cut, **o)

    res.evals += 1
    res.transitions += 1
    root = fst.FST(src, 'exec')
    pre = (root.src, O.dump_pos(root.a))
    try:
        with deadline(10):
            piece = get(root, False)
    except CaseTimeout:
        res.fail(cid, 'hang', '', params, rep)
        return
    except Exception as e:  # noqa: BLE001
        res.outcomes['copy-refused:' + e.__class__.__name__] += 1
        if e.__class__.__name__ in X_INTERNAL:
            res.fail(cid, 'copy-raised-internal:' + e.__class__.__name__, f'src={src!r}\n{e!r}', params, rep)
        return
    res.traces += 1
    if (root.src, O.dump_pos(root.a)) != pre:
        res.fail(cid, 'copy-disturbed-source-tree', f'src={src!r}\nnow={root.src!r}', params, rep)
        return
    if piece.parent is not None or piece.a.f is not piece:
        res.fail(cid, 'copy-not-a-root', '', params, rep)
        return
    bad = reparse_ok(fst, piece)
    if bad:
        res.fail(cid, 'copy-not-self-contained', f'src={src!r}\npiece={piece.src!r}\n{bad}', params, rep)
        return
    # structural faithfulness
    if what[0] == 'node':
        cont = cont_docs(piece.a, orig)
        if sdump(piece.a, cont) != sdump(orig, cont):
            res.fail(cid, 'copy-structure-differs-from-original', f'src={src!r}\npiece={piece.src!r}\n' +
                     O.first_diff(sdump(piece.a, cont), sdump(orig, cont)), params, rep)
            return
    else:
        lst = first_list(piece.a, field)
        if orig is not None and lst is not None and orig and isinstance(orig[0], ast.AST) and piece.a.__class__.__name__ not in ('Dict', 'Compare', 'MatchMapping', 'arguments', 'BoolOp', 'MatchClass'):
            cont = cont_docs(lst, orig)
            g, w = [sdump(x, cont) for x in lst], [sdump(x, cont) for x in orig]
            if g != w and not (len(orig) == 1 and sdump(piece.a) == w[0]):  # norm=True returns the lone element itself (MatchOr)
                res.fail(cid, 'slice-structure-differs-from-original', f'src={src!r}\npiece={piece.src!r}\ngot={g}\nwant={w}', params, rep)
                return
    res.state(pi, piece.src)
    if toks(piece.src):
        res.nontriv(pi, label, oid)
    # cut == copy, remainder == delete
    rootc = fst.FST(src, 'exec')
    try:
        with deadline(10):
            cutp = get(rootc, True)
    except CaseTimeout:
        res.fail(cid, 'hang', 'cut', params, rep)
        return
    except Exception as e:  # noqa: BLE001
        res.outcomes['cut-refused:' + e.__class__.__name__] += 1
        return
    res.transitions += 1
    if cutp.src != piece.src or O.dump(cutp.a) != O.dump(piece.a):
        res.fail(cid, 'cut-returns-something-else-than-copy', f'src={src!r}\ncopy={piece.src!r}\ncut={cutp.src!r}', params, rep)
        return
    rootd = fst.FST(src, 'exec')
    try:
        n = node_at(rootd, path)
        if what[0] == 'node':
            n.remove(**o)
        else:
            n.put_slice(None, i, j, field, **o)
        if rootd.src != rootc.src or O.dump_pos(rootd.a) != O.dump_pos(rootc.a):
            res.fail(cid, 'cut-remainder-differs-from-delete', f'src={src!r}\nafter cut={rootc.src!r}\nafter delete={rootd.src!r}', params, rep)
            return
    except Exception as e:  # noqa: BLE001
        res.outcomes['delete-refused-but-cut-ok:' + e.__class__.__name__] += 1
    from ..fstnav import live_vs_parse
    bad = live_vs_parse(rootc, 'Module')
    if bad:
        res.outcomes['C01-after-cut(reported-by-C01)'] += 1
        return
    # conservation: tokens(original) == tokens(remainder) + tokens(piece), comments included
    t0, t1, t2 = toks(src), toks(rootc.src), toks(cutp.src, isinstance(cutp.a, (ast.mod, ast.stmt, ast.excepthandler, ast.match_case)))
    if t0 is not None and t1 is not None and t2 is not None:
        tot = t1 + t2
        if tot != t0:
            lost = t0 - tot
            dup = tot - t0
            allowed_dup = {k for k in dup if k in ('pass',) or k.startswith('*()') or k in ('set',)}
            lost = {k: v for k, v in lost.items()}
            # the header line of an 'else:' / 'finally:' block that the cut empties goes away with its keyword
            hdr = header_comments_of_emptied_blocks(src, rootc.src)
            for k in list(lost):
                if k in hdr:
                    lost[k] -= hdr[k]
                    if lost[k] <= 0:
                        del lost[k]
            dup = {k: v for k, v in dup.items() if k not in ('pass', 'set', '*')}
            if lost or dup:
                sym = 'comment-lost-or-duplicated-by-cut' if any(k.startswith('#') for k in list(lost) + list(dup)) else 'tokens-not-conserved-by-cut'
                res.fail(cid, sym, f'src={src!r}\nremainder={rootc.src!r}\npiece={cutp.src!r}\nlost={lost} duplicated={dup}', params, rep)
                return
    res.outcomes['ok'] += 1
    res.sample({'program': src, 'what': label, 'opts': oid, 'piece': piece.src})


X_INTERNAL = ('AttributeError', 'TypeError', 'KeyError', 'AssertionError', 'UnboundLocalError', 'RecursionError', 'IndexError')


def enumerate_whats(src):
    tree = ast.parse(src)
    in_ftstr = {id(d) for n in ast.walk(tree) if isinstance(n, ast.JoinedStr) for d in ast.walk(n) if d is not n}
    for path, parent, field, idx, child in O.iter_slots(tree, E.EDIT_TYPES):
        if id(child) in in_ftstr:
            continue  # f-string internals: separate sub-alphabet
        yield ('node', [list(x) for x in path])
    for path, node in O.iter_nodes(tree):
        for field, typ, card in O.GRAMMAR.get(node.__class__.__name__, ()):
            if card == '*' and (typ in E.EDIT_TYPES or (typ == 'identifier' and node.__class__.__name__ in ('Global', 'Nonlocal'))):
                n = len(getattr(node, field))
                if n > (5 if typ == 'identifier' else 4):
                    continue
                for i in range(n + 1):
                    for j in range(i, n + 1):
                        yield ('slice', [list(x) for x in path], field, i, j)
        vf = {'Dict': ('_all', lambda a: len(a.keys)), 'MatchMapping': ('_all', lambda a: len(a.keys) + (a.rest is not None)),
              'Compare': ('_all', lambda a: 1 + len(a.comparators)), 'Call': ('_args', lambda a: len(a.args) + len(a.keywords)),
              'ClassDef': ('_bases', lambda a: len(a.bases) + len(a.keywords)),
              'arguments': ('_all', lambda a: len(a.posonlyargs) + len(a.args) + len(a.kwonlyargs) + (a.vararg is not None) + (a.kwarg is not None)),
              }.get(node.__class__.__name__)
        if vf and id(node) not in in_ftstr:
            n = vf[1](node)
            if n <= 4:
                for i in range(n + 1):
                    for j in range(i, n + 1):
                        yield ('slice', [list(x) for x in path], vf[0], i, j)


_N_SHARED2 = 56  # shared programs from this one on were added after EXTRA7 existed: they go to the very end
_N_SHARED = 46  # case ids are positional: the first 46 shared programs, then C06's, then whatever either list gained later


def progs(tier):
    from .c06 import PROGS, PARS2, CMTOPS
    late = list(CMTOPS) + list(PARS2)  # C06 programs added after EXTRA7 existed: they go to the very end (positional case ids)
    base = list(PROGRAMS[:_N_SHARED])
    base += [p for p in PROGS if p not in base and p not in PROGRAMS[_N_SHARED:] and p not in late]
    return base + [p for p in PROGRAMS[_N_SHARED:_N_SHARED2] if p not in base] + EXTRA7 + late + list(PROGRAMS[_N_SHARED2:]) + EXTRA7B


EXTRA7B = [  # really appended last
    # multi-line f-strings in an indented block whose nested f-string re-uses the quote sequence (3.12): the lines behind the nested one still belong to the outer string
    'def f(x, y):\n    s = f"""a\n  {f"""{y}"""}\n  b\nc"""\n    t = f"p \\\n {f"{y}"} \\\n  q"\n    return s, t',
    "class K:\n    def m(self):\n        u = f\'\'\'{self.a:{f\'\'\'>{w}\'\'\'}}\n    tail {\n  x}\nend\'\'\'\n        return u",
]
EXTRA7 = [  # appended last (positional case ids)
    # strings spanning several lines inside decorators / defaults / bases of definitions written on one line, in an indented block
    # operator chains with the operator at the start of the line / on a line of its own
    "x = (a\n     and  # c1\n         b\n     and c)  # c2\ny = (p\n     <  # c3\n     q\n     <= r)",
    'class K:\n    @reg("""usage:\n    prog""")\n    def run(self): pass\n\n    @reg(\'a \\\n    b\')\n    class In(B("""x\n      y""")): pass\n'
    '    def dflt(self, h="""p\n    q"""): return h\n    async def one(self): return """r\n    s"""',
]
for _p in EXTRA7:
    ast.parse(_p)


SLICE_ROOTS = [  # trees whose root is a slice container of its own (what get_slice() returns), every element line with a comment, no final newline
    ('@a\n@b(1)  # c1\n@c  # c2', '_decorator_list'), ('for a in b  # c1\nfor c in d if e  # c2\nfor f in g  # c3', '_comprehensions'),
    ('if a  # c1\nif b  # c2\nif c  # c3', '_comprehension_ifs'), ('a,  # c1\nb,  # c2\nc  # c3', 'Tuple'), ('a as b,  # c1\nc,  # c2\nd as e  # c3', '_withitems'),
    ('x,  # c1\n*y,  # c2\nk=1  # c3', '_arglikes'), ('T,  # c1\n*U,  # c2\n**V  # c3', '_type_params'), ('m, n as o, p  # c3', '_aliases'),
    ('a = b = c =', '_Assign_targets'), ('except A: pass  # c1\nexcept B: pass  # c2\nexcept C: pass  # c3', '_ExceptHandlers'),
    ('case 1: pass  # c1\ncase 2: pass  # c2\ncase _: pass  # c3', '_match_cases'), ('x = 1  # c1\ny = 2  # c2\nz = 3  # c3', 'stmts'),
    ('a |  # c1\nb |  # c2\nc  # c3', 'pattern'), ('a,  # c1\nb,  # c2\nc  # c3', 'pattern'),
]


def _ftoks(src):
    """comment / token multisets of a fragment that may not tokenize on its own"""
    t = toks(src)
    if t is None:
        t = toks('(\n' + src + '\n)')
        if t is not None:
            t = t - collections.Counter(['(', ')'])
    return t


def check_slice_root(fst, ri, res):
    src, mode = SLICE_ROOTS[ri]
    try:
        root0 = fst.FST(src, mode)
    except Exception as e:  # noqa: BLE001
        res.fail(f'C07/sliceroot{ri}', 'slice-root-does-not-parse:' + e.__class__.__name__, f'{src!r} {mode} {e!r}', {}, None)
        return
    lst = first_list(root0.a)
    n = len(lst) if lst is not None else 0
    for opts in ({}, {'trivia': False}, {'trivia': ('all', 'all')}):
        oid = ','.join(f'{k}={v!r}' for k, v in sorted(opts.items()))
        for i in range(n):
            for j in range(i + 1, n + 1):
                cid = f'C07/sliceroot{ri}:{mode}/[{i}:{j}]/{oid}'
                rep = {'sliceroot': ri}
                res.evals += 1
                res.transitions += 2
                r1, r2 = fst.FST(src, mode), fst.FST(src, mode)
                try:
                    piece = r1.get_slice(i, j, **opts)
                    cutp = r2.get_slice(i, j, cut=True, **opts)
                except Exception as e:  # noqa: BLE001
                    res.outcomes['sliceroot-refused:' + e.__class__.__name__] += 1
                    continue
                res.traces += 1
                if r1.src != src:
                    res.fail(cid, 'copy-disturbed-source-tree', f'src={src!r}\nnow={r1.src!r}', {'kind': 'sliceroot'}, rep)
                    continue
                if cutp.src != piece.src:
                    res.fail(cid, 'cut-returns-something-else-than-copy', f'src={src!r}\ncopy={piece.src!r}\ncut={cutp.src!r}', {'kind': 'sliceroot'}, rep)
                    continue
                t0, t1, t2 = _ftoks(src), _ftoks(r2.src), _ftoks(cutp.src)
                if t0 is None or t1 is None or t2 is None:
                    res.outcomes['sliceroot-not-tokenizable'] += 1
                    continue
                if t0 != t1 + t2:
                    res.fail(cid, 'tokens-not-conserved-by-cut', f'src={src!r}\nremainder={r2.src!r}\npiece={cutp.src!r}\nlost={dict(t0 - t1 - t2)} duplicated={dict(t1 + t2 - t0)}',
                             {'kind': 'sliceroot'}, rep)
                    continue
                res.nontriv('sliceroot', ri, i, j, oid)
                res.outcomes['sliceroot-ok'] += 1


def shards(tier):
    return [{'prog': i} for i in range(len(progs(tier)))] + [{'sliceroot': i} for i in range(len(SLICE_ROOTS))]


def run_shard(desc, tier, res):
    import fst
    if 'sliceroot' in desc:
        check_slice_root(fst, desc['sliceroot'], res)
        return
    src = progs(tier)[desc['prog']]
    for what in enumerate_whats(src):
        w = (what[0], tuple(tuple(x) for x in what[1])) + tuple(what[2:])
        opts = OPTS[:6] if tier == 'quick' else OPTS
        for o in opts:
            check_extract(fst, desc['prog'], src, w, o, res)


def replay(rep, res):
    import fst
    if 'sliceroot' in rep:
        check_slice_root(fst, rep['sliceroot'], res)
        return
    what = rep['what']
    w = (what[0], tuple(tuple(x) for x in what[1])) + tuple(what[2:])
    check_extract(fst, rep['prog'], progs('thorough')[rep['prog']], w, rep['opts'], res)
