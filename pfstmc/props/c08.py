"""C08 - putting back what was taken restores the tree; accessors read back writes.

enum + bounded repetition: for every node / slice: cut -> put back (as the cut FST, as its pure AST, as its source);
replace by own copy / own pure AST / own source; own_src() re-parsed in the node's kind; repeated 1..3 times.
Docstrings and line comments: all strings up to length 3 over a 12-character alphabet + crafted ones x contexts."""
from __future__ import annotations

import ast
import copy
import itertools
import re

from .. import edits as E
from .. import oracle as O
from ..core import CaseTimeout, deadline
from ..fstnav import live_vs_parse, node_at
from ..programs import PROGRAMS
from .c07 import cont_docs, enumerate_whats, reparse_ok, sdump

ID = 'C08'
_CTXRE = re.compile(r"ctx=(Store|Del)\(\)")
LEVEL = 'model_checking'
TECHNIQUE = ('bounded exhaustive enumeration of (program, node or slice, code form, repetition count) round trips and of all short '
             'docstring / comment texts over a 12-character alphabet on the real code, judged by CPython (structure, C01, literal values)')
LEVEL_TEXT = ('every node and every slice of 64 programs is cut and put back / replaced by itself in all three code forms, 1 to 3 '
              'times, and own_src() is re-parsed; every string of length <= 3 over 12 special characters (+48 crafted) is written '
              'as docstring and line comment in 6 / 12 contexts and read back; structure, C01 and CPython literal values are compared')
LEVEL_NOTE = ('trusted: CPython ast (structure modulo ctx and documented docstring re-indentation), ast.literal_eval semantics of the '
              'docstring constant; line comments are documented to be stripped and cannot contain newlines')
RULE = ('enum: case = (program, node/slice, form, repetitions) or (context, text, accessor); non-trivial = distinct cases where the '
        'round trip was accepted; states = distinct sources seen; traces = round trips compared')
ASSUMPTIONS = ['cut and put back run with norm=False (the container may pass through a length Python does not allow), self-replacement with norm=True', 'texts containing a line break are not valid line comments']
BOUNDS = {'quick': '57 programs, all nodes and slices (<= 4 elements), 6 forms (cut/self x fst/ast/src), repetitions 1-3; docstring texts of length <= 3 (+48 crafted) x 6 contexts; comment texts <= 2 x 6 contexts',
          'thorough': 'comment texts of length <= 3'}

ALPH = ['a', ' ', '"', "'", '\\', '\n', '\t', '{', '#', 'é', '\x00', '\r']
CRAFTED = ['"""', "'''", '"""x"""', "'''x'''", 'ends with "', "ends with '", 'ends with \\', '\\n', '\\', '""', "''", 'a"""b\'\'\'c',
           'x\n  indented\n    more\nback', 'tab\there', 'trail  \nline  ', '\n', '\nlead', 'x\n', 'x\n\n', 'é\nü', '{}', '{x}', '\\x41', '\\N{DASH}',
           'r"raw"', 'f"{x}"', 'u\u2028v', 'nul\x00nul', 'cr\rcr', 'crlf\r\nx', '#', '# c', 'a # b', '\\\n', 'a\\', '\\"', '\\\\', "\\'",
           '"' * 5, "'" * 5, '\"\"\"\\', 'x' * 80, 'emoji \U0001F600', '\x0c', '\x1b[0m', 'a\x07b', 'mixed \' and " and \\ and \n']

CONTEXTS = [
    ('module', 'x = 1\n', ()),
    ('def', 'def f():\n    pass\n', (('body', 0),)),
    ('nested class', 'class A:\n    class B:\n        y = 2\n', (('body', 0), ('body', 0))),
    ('existing', 'def f():\n    """old\n    doc"""\n    return 1\n', (('body', 0),)),
    ('tabs', 'class C:\n\tdef m(self):\n\t\treturn 0\n', (('body', 0), ('body', 0))),
    ('async def one-line', 'async def g(): return 1\n', (('body', 0),)),
]


def texts(n):
    seen = set()
    for k in range(n + 1):
        for t in itertools.product(ALPH, repeat=k):
            s = ''.join(t)
            if s not in seen:
                seen.add(s)
                yield s
    for s in CRAFTED:
        if s not in seen:
            seen.add(s)
            yield s


def _docs_blanked(tree):
    """(dump with docstring-position multi-line constants replaced by a marker, [(value, statement column)] in walk order)"""
    tree = copy.deepcopy(tree)
    docs = []
    for n in ast.walk(tree):
        if isinstance(n, ast.Expr) and isinstance(n.value, ast.Constant) and isinstance(n.value.value, str) and '\n' in n.value.value:
            docs.append((n.value.value, n.col_offset))
            n.value.value = '<DOC>'
    return _CTXRE.sub('ctx=Load()', ast.dump(tree)), docs


def xcompare(orig, got):
    """Round trip that ends where it started: everything, including string values, must be equal. Tolerated for docstring-position
    strings only (documented line-wise docstring re-indentation: empty lines are never indented, a line cannot be dedented by more
    than it has): a whitespace-only line may come back shorter, a line indented less than its statement may come back with other
    leading whitespace. A line that comes back *longer*, or any other change, is a violation. Returns None or a description."""
    d0, docs0 = _docs_blanked(orig)
    d1, docs1 = _docs_blanked(got)
    if d0 != d1:
        return O.first_diff(d1, d0)
    for (v0, col), (v1, _) in zip(docs0, docs1):
        l0, l1 = v0.split('\n'), v1.split('\n')
        if len(l0) != len(l1) or l0[0] != l1[0]:
            return f'docstring {v1!r} != {v0!r}'
        for a, b in zip(l0[1:], l1[1:]):
            if a == b:
                continue
            if not a.strip() and not b.strip() and len(b) <= len(a):
                continue
            if a.lstrip(' \t') == b.lstrip(' \t') and len(a) - len(a.lstrip(' \t')) < col:
                continue
            return f'docstring line {b!r} != {a!r} in {v1!r} (was {v0!r})'
    return None


def roundtrip(fst, pi, src, what, form, reps, res):
    path = what[1]
    tree = ast.parse(src)
    exact = not form.endswith('ast')  # pure-AST code carries no layout: its docstrings are re-indented on the way in
    if what[0] == 'node':
        label = O.path_str(path)
    else:
        _, _, field, i, j = what
        label = f'{O.path_str(path)}.{field}[{i}:{j}]'
    cid = f'C08/p{pi}/{label}/{form}/x{reps}'
    rep = {'prog': pi, 'what': [what[0], [list(x) for x in path]] + list(what[2:]), 'form': form, 'reps': reps}
    tgt = O.get_path(tree, path[:-1]) if path else None
    params = {'kind': what[0], 'form': form,
              'dependent_field': bool(what[0] == 'node' and path and ((isinstance(tgt, ast.Raise) and path[-1][0] == 'exc' and tgt.cause)
                                      or (isinstance(tgt, ast.ExceptHandler) and path[-1][0] == 'type' and tgt.name)))}
    root = fst.FST(src, 'exec')
    res.evals += 1
    res.state(src)
    inter = None  # the piece in hand between cut and put back: its AST values must be what its own source denotes
    try:
        with deadline(15):
            for _ in range(reps):
                n = node_at(root, path)
                if form.startswith('cut'):
                    if what[0] == 'node':
                        par, pf = n.parent, n.pfield
                        piece = n.cut(norm=False)
                        inter = inter or reparse_ok(fst, piece)
                        code = piece if form == 'cut-fst' else piece.src if form == 'cut-src' else piece.a
                        if form == 'cut-ast':
                            code = ast.parse(ast.unparse(piece.a)) if isinstance(piece.a, ast.Module) else _pure(piece)
                        if pf.idx is None:
                            par.put(code, field=pf.name, norm=False)
                        else:
                            par.put_slice(code, pf.idx, pf.idx, pf.name, one=True, norm=False)
                    else:
                        piece = n.get_slice(i, j, field, cut=True, norm=False)
                        if not (isinstance(piece.a, (ast.BoolOp, ast.MatchOr)) and j - i < 2):  # norm=False: a one-operand container is what was asked for
                            inter = inter or reparse_ok(fst, piece)
                        code = piece if form == 'cut-fst' else _slice_src(piece) if form == 'cut-src' else _pure(piece)
                        n = node_at(root, path)
                        n.put_slice(code, i, i, field, norm=False)
                else:
                    if what[0] != 'node':
                        piece = n.get_slice(i, j, field, norm=True)
                        code = piece if form == 'self-fst' else _slice_src(piece) if form == 'self-src' else _pure(piece)
                        n.put_slice(code, i, j, field, norm=True)
                    else:
                        code = n.copy() if form == 'self-fst' else n.own_src() if form == 'self-src' else n.copy_ast()
                        n.replace(code, norm=True)
                res.transitions += 1
    except CaseTimeout:
        res.fail(cid, 'hang', f'src={src!r}', params, rep)
        return
    except Exception as e:  # noqa: BLE001
        res.outcomes['refused:' + e.__class__.__name__] += 1
        empties = what[0] == 'slice' and what[2] in ('generators', 'comparators', 'ops', 'targets', 'names', 'items', 'handlers', 'cases') \
            and what[3] == 0 and what[4] == len(getattr(O.get_path(tree, path), what[2]))
        if what[0] == 'node' and path and path[-1][1] is not None and path[-1][0] in ('generators', 'comparators', 'ops', 'targets', 'names',
                                                                                   'items', 'handlers', 'cases') \
                and len(getattr(O.get_path(tree, path[:-1]), path[-1][0])) == 1:
            empties = True
        if empties:
            res.outcomes['intermediate-state-without-required-elements-not-judged'] += 1
        elif e.__class__.__name__ in ('AttributeError', 'TypeError', 'KeyError', 'AssertionError', 'UnboundLocalError', 'IndexError'):
            res.fail(cid, 'roundtrip-raised-internal:' + e.__class__.__name__, f'src={src!r}\n{e!r}', params, rep)
        return
    res.traces += 1
    if inter:
        res.fail(cid, 'cut-piece-differs-from-its-own-source', f'src={src!r}\n{inter}', params, rep)
        return
    bad = live_vs_parse(root, 'Module')
    if bad:
        res.fail(cid, 'C01-after-roundtrip', f'src={src!r}\n{bad}', params, rep)
        return
    now = ast.parse(root.src)
    cont = cont_docs(tree, now)
    got, want = sdump(now, cont), sdump(tree, cont)
    if got != want:
        res.fail(cid, 'roundtrip-changed-structure', f'src={src!r}\nnow={root.src!r}\n' + O.first_diff(got, want), params, rep)
        return
    diff = xcompare(tree, ast.parse(root.src)) if exact else None
    if diff:
        res.fail(cid, 'roundtrip-changed-string-value', f'src={src!r}\nnow={root.src!r}\n{diff}', params, rep)
        return
    res.state(root.src)
    res.nontriv(pi, label, form, reps)
    res.outcomes['ok'] += 1
    res.sample({'program': src, 'what': label, 'form': form, 'reps': reps, 'result': root.src})


def _slice_src(piece):
    """Source text form of a slice: a delimited sequence is one element when given as text, so the delimiters go."""
    a = piece.a
    src = piece.src
    if isinstance(a, (ast.List, ast.Set)) or (isinstance(a, (ast.Tuple, ast.MatchSequence)) and src.lstrip()[:1] in '([' and src.rstrip()[-1:] in ')]'):
        inner = src.strip()[1:-1].strip()
        if len(getattr(a, 'elts', None) or getattr(a, 'patterns', ())) == 1 and not inner.rstrip().endswith(','):
            inner += ','
        return inner
    return src


def _pure(piece):
    """The piece's own pure AST: a plain copy without any FST links."""
    return piece.copy_ast() if hasattr(piece, 'copy_ast') else piece.a


def own_src_check(fst, pi, src, res):
    tree = ast.parse(src)
    root = fst.FST(src, 'exec')
    in_ftstr = {id(d) for n in ast.walk(tree) if isinstance(n, ast.JoinedStr) for d in ast.walk(n) if d is not n}
    for path, parent, field, idx, child in O.iter_slots(tree, ('expr', 'stmt', 'pattern', 'arg', 'keyword', 'alias', 'withitem',
                                                              'excepthandler', 'match_case', 'comprehension', 'type_param')):
        if id(child) in in_ftstr:
            continue
        f = node_at(root, path)
        cid = f'C08/p{pi}/{O.path_str(path)}/own_src'
        res.evals += 1
        res.transitions += 1
        if isinstance(child, ast.If) and src.split('\n')[child.lineno - 1].lstrip().startswith('elif'):
            continue
        ok = True
        # query sequence on the SAME node: a later answer must not depend on an earlier query (cached lines)
        for k, kw in enumerate(({}, {'docstr': False}, {'docstr': 'strict'}, {}, {'docstr': False})):
            try:
                s = f.own_src(**kw)
                back = fst.FST(s, child.__class__.__name__)
            except Exception as e:  # noqa: BLE001
                res.fail(cid + f'/q{k}', 'own_src-does-not-parse-back:' + e.__class__.__name__, f'src={src!r}\n{kw} {e!r}', {}, {'prog': pi})
                ok = False
                break
            res.traces += 1
            # no docstring re-indentation requested, or the node is not a statement (only Expr statements are docstrings):
            # string values must be untouched
            exact = kw.get('docstr') is False or not isinstance(child, (ast.stmt, ast.excepthandler, ast.match_case))
            cont = cont_docs(back.a, child)
            g = _CTXRE.sub('ctx=Load()', ast.dump(back.a)) if exact else sdump(back.a, cont)
            w = _CTXRE.sub('ctx=Load()', ast.dump(child)) if exact else sdump(child, cont)
            if g != w:
                res.fail(cid + f'/q{k}', 'own_src-parses-to-something-else', f'src={src!r}\nquery {k} {kw}\nown_src={s!r}\n' + O.first_diff(g, w),
                         {}, {'prog': pi})
                ok = False
                break
        if ok:
            res.nontriv(pi, 'own', O.path_str(path))


def docstr_case(fst, ci, text, res):
    name, src, path = CONTEXTS[ci]
    cid = f'C08/doc/{name}/{text!r}'
    rep = {'ctx': ci, 'text': text}
    root = fst.FST(src, 'exec')
    n = node_at(root, path)
    res.evals += 1
    res.transitions += 1
    try:
        with deadline(10):
            n.put_docstr(text)
    except CaseTimeout:
        res.fail(cid, 'hang', '', {}, rep)
        return
    except Exception as e:  # noqa: BLE001
        res.fail(cid, 'put_docstr-raised:' + e.__class__.__name__, f'src={src!r}\ntext={text!r}\n{e!r}', {'accessor': 'docstr'}, rep)
        return
    res.traces += 1
    bad = live_vs_parse(root, 'Module')
    if bad:
        res.fail(cid, 'C01-after-put_docstr', f'text={text!r}\n{bad}', {'accessor': 'docstr'}, rep)
        return
    n = node_at(root, path)
    got = n.get_docstr()
    first_ws = text[:1] in (' ', '\t', '\x0c') if text else False
    if got != text and not first_ws:
        # lines of the text that consist only of whitespace / start with less indentation are subject to the documented dedent
        res.fail(cid, 'docstring-not-read-back', f'src now={root.src!r}\ntext={text!r}\n got={got!r}', {'accessor': 'docstr'}, rep)
        return
    # CPython's own idea of the docstring (cleandoc-free): value of the constant, dedented by the block indentation
    node = O.get_path(ast.parse(root.src), path)
    val = node.body[0].value.value
    if not isinstance(val, str):
        res.fail(cid, 'docstring-not-a-str-constant', f'{val!r}', {'accessor': 'docstr'}, rep)
        return
    res.state(root.src)
    res.nontriv('doc', ci, text)
    # second write over the first, then delete
    try:
        n.put_docstr('second')
        if node_at(root, path).get_docstr() != 'second' or live_vs_parse(root, 'Module'):
            res.fail(cid, 'docstring-overwrite-failed', f'now={root.src!r}', {'accessor': 'docstr'}, rep)
            return
        node_at(root, path).put_docstr(None)
        if node_at(root, path).get_docstr() is not None or live_vs_parse(root, 'Module'):
            res.fail(cid, 'docstring-delete-failed', f'now={root.src!r}', {'accessor': 'docstr'}, rep)
            return
    except Exception as e:  # noqa: BLE001
        res.fail(cid, 'put_docstr-raised:' + e.__class__.__name__, f'second/delete: {e!r}', {'accessor': 'docstr'}, rep)
        return
    res.outcomes['doc-ok'] += 1


CMT_CTX = [('x = 1', (('body', 0),)), ('if a:\n    b  # old\nc', (('body', 0), ('body', 0))), ('if a:  # hdr\n    b', (('body', 0),)),
           ('def f():\n\treturn (1,\n\t\t2)', (('body', 0), ('body', 0))),
           # last statement two and three block levels down (its comment is part of every enclosing block's extent)
           ('class C:\n    def m(self):\n        return 1  # old\nz = 0', (('body', 0), ('body', 0), ('body', 0))),
           ('if a:\n    for i in j:\n        while k:\n            l\nm', (('body', 0), ('body', 0), ('body', 0), ('body', 0))),
           # the comment of a later section header of the statement (field argument): else / elif (tests containing ':') / finally
           ('if a:\n    b\nelse:\n    c', (('body', 0),), 'orelse'),
           ('if a:\n    b\nelif c[1:2]:  # old\n    d\nelse:\n    e', (('body', 0),), 'orelse'),
           ("if a:\n    b\nelif (n := g()) == {1: 'x:y'}:\n    d", (('body', 0),), 'orelse'),
           ('for i in j:\n    k\nelse:  # old\n    l', (('body', 0),), 'orelse'),
           ('try:\n    a\nexcept E:\n    b\nelse:\n    c\nfinally:\n    d', (('body', 0),), 'finalbody'),
           ('if a:\n    b\nelif c: d\ne', (('body', 0),), 'orelse')]


def comment_case(fst, ci, text, res):
    src, path, *fld = CMT_CTX[ci]
    fld = fld[0] if fld else None
    cid = f'C08/cmt/{ci}/{text!r}'
    rep = {'cmt': ci, 'text': text}
    root = fst.FST(src, 'exec')
    n = node_at(root, path)
    res.evals += 1
    res.transitions += 1
    pre = (root.src, O.dump_pos(root.a))
    from ..explore import warm_caches
    warm_caches(root)  # the enclosing blocks' extents have been read before (and are cached)
    for k in range(1, len(path)):
        node_at(root, path[:k]).own_src()
    try:
        n.put_line_comment(text, fld)
    except Exception as e:  # noqa: BLE001
        if '\n' in text or '\r' in text or '\x0c' in text or '\x00' in text:
            res.outcomes['comment-with-linebreak-refused'] += 1
            if (root.src, O.dump_pos(root.a)) != pre:
                res.fail(cid, 'refused-comment-changed-tree', f'text={text!r}', {'accessor': 'comment'}, rep)
            return
        res.fail(cid, 'put_line_comment-raised:' + e.__class__.__name__, f'text={text!r}\n{e!r}', {'accessor': 'comment'}, rep)
        return
    res.traces += 1
    bad = live_vs_parse(root, 'Module')
    if bad:
        res.fail(cid, 'C01-after-put_line_comment', f'text={text!r}\n{bad}', {'accessor': 'comment', 'linebreak': any(c in text for c in '\n\r\x0c\x00')}, rep)
        return
    got = node_at(root, path).get_line_comment(fld)
    want = text.strip()
    if want.startswith('#'):
        want2 = want.lstrip('#').strip()
    else:
        want2 = want
    if got not in (want, want2) and not (want == '' and got in (None, '')):
        res.fail(cid, 'comment-not-read-back', f'now={root.src!r}\ntext={text!r}\n got={got!r}', {'accessor': 'comment', 'linebreak': any(c in text for c in '\n\r\x0c\x00')}, rep)
        return
    if O.dump(ast.parse(root.src)) != O.dump(ast.parse(src)):
        res.fail(cid, 'comment-changed-structure', f'now={root.src!r}', {'accessor': 'comment'}, rep)
        return
    # every enclosing statement reads back with the new comment: extent, text and standalone source as in a fresh tree
    fresh = fst.FST(root.src, 'exec')
    for k in range(1, len(path) + 1):
        a, b = node_at(root, path[:k]), node_at(fresh, path[:k])
        ga = (tuple(a.bloc), a.src, a.own_src())
        gb = (tuple(b.bloc), b.src, b.own_src())
        if ga != gb:
            res.fail(cid, 'enclosing-statement-reads-back-stale-after-comment-put',
                     f'now={root.src!r}\n{O.path_str(path[:k])}: live={ga!r}\nfresh={gb!r}', {'accessor': 'comment'}, rep)
            return
    if len(path) > 1:  # cut the outermost enclosing statement and put it back
        top = node_at(root, path[:1])
        par, pf = top.parent, top.pfield
        now = root.src
        try:
            piece = top.cut(norm=False)
            par.put_slice(piece, pf.idx, pf.idx, pf.name, one=True, norm=False)
        except Exception as e:  # noqa: BLE001
            res.fail(cid, 'cut-and-put-back-after-comment-put-raised:' + e.__class__.__name__, f'now={now!r}\n{e!r}', {'accessor': 'comment'}, rep)
            return
        if live_vs_parse(root, 'Module') or O.dump(ast.parse(root.src)) != O.dump(ast.parse(now)) or O.comments(root.src) != O.comments(now):
            res.fail(cid, 'cut-and-put-back-after-comment-put-changed-program', f'before={now!r}\nafter={root.src!r}', {'accessor': 'comment'}, rep)
            return
    res.nontriv('cmt', ci, text)
    res.outcomes['cmt-ok'] += 1


FORMS = ('cut-fst', 'cut-ast', 'cut-src', 'self-fst', 'self-ast', 'self-src')
EXTRA = [  # positions whose content needs its parentheses; nested multi-line docstrings
    "(a or b)(c)\n(lambda: x)()\n(a + b).c\n(a, b)[0]\n(-a) ** b",
    "(a if b else c).d\n(x := 1) + 2\n[*(a or b)]\nf(**(a or b))\n(a < b) < c\nnot (a and b)",
    "async def f():\n    (await z)[0]\n    (await g())(1)\n    (yield)\n    x = (yield y) + 1",
    "class K:\n    def m(self):\n        '''doc\n        more\n          indented'''\n        return 1\n    def n(self):\n        s = '''a\n        b'''\n        '''not doc\n        c'''",
    "def f(a=(lambda: 0), *b, c=(x if y else z)):\n    return (a, b), (c)\nf((u for u in v), w)",
    # whitespace-only lines that carry indentation: inside docstrings / strings and between statements
    "class C:\n    def f(self):\n        \"\"\"Summary.\n        \n        Details.\n    \n            deep\n        \"\"\"\n        return 1\n    \n    def g(self):\n        s = '''a\n        \n  b'''\n        \n        return s\n",
    "if a:\n    '''d\n    \n    e'''\n    \n    x = 1\n  \n    y = 2\n\t\nz = 3",
    # flags that are recomputed from the layout: AnnAssign.simple depends on the target's parentheses
    "(x): int = 1\n(y): str\nz: int = 2\na.b: int\n(c[0]): int = 3\n((d)): e",
    # strings spanning several lines inside decorators / defaults / bases of definitions written on one line, in an indented block
    'class K:\n    @reg("""usage:\n    prog""")\n    def run(self): pass\n\n    @reg(\'a \\\n    b\')\n    class In(B("""x\n      y""")): pass\n'
    '    def dflt(self, h="""p\n    q"""): return h',
    # statements that end with their last element (del / import / from-import / global), multi-byte text before that end on the line
    "del d['clé'], tmp\nimport módulo, b\nfrom módulo import a, b\ns = 'é'; del a, (b)\ndef f():\n    global gé, h; 'ü'; nonlocal_ = 1",
    # comments that end in a backslash are not line continuations: the parentheses around these expressions are needed
    "x = (a +  # see C:\\tmp\\\n     b)\ny = (c if d  # \\\n     else e)\nz = (not  # \\\n     g) and (h <  # i\\\n     j)",
]
PROGS8 = list(PROGRAMS) + EXTRA
for _p in EXTRA:
    ast.parse(_p)


def shards(tier):
    out = [{'prog': i, 'kind': 'rt'} for i in range(len(PROGS8))]
    out += [{'ctx': c, 'kind': 'doc'} for c in range(len(CONTEXTS))]
    out += [{'cmt': c, 'kind': 'cmt'} for c in range(len(CMT_CTX))]
    return out


def run_shard(desc, tier, res):
    import fst
    if desc['kind'] == 'rt':
        pi = desc['prog']
        src = PROGS8[pi]
        own_src_check(fst, pi, src, res)
        for what in enumerate_whats(src):
            w = (what[0], tuple(tuple(x) for x in what[1])) + tuple(what[2:])
            if w[0] == 'slice' and (w[2].startswith('_') or w[3] == w[4]):
                continue
            for form in FORMS:
                for reps in (1, 2, 3):
                    roundtrip(fst, pi, src, w, form, reps, res)
    elif desc['kind'] == 'doc':
        for t in texts(3):
            docstr_case(fst, desc['ctx'], t, res)
    else:
        for t in texts(2 if tier == 'quick' else 3):
            comment_case(fst, desc['cmt'], t, res)


def replay(rep, res):
    import fst
    if 'ctx' in rep:
        docstr_case(fst, rep['ctx'], rep['text'], res)
    elif 'cmt' in rep:
        comment_case(fst, rep['cmt'], rep['text'], res)
    else:
        w = rep['what']
        what = (w[0], tuple(tuple(x) for x in w[1])) + tuple(w[2:])
        roundtrip(fst, rep['prog'], PROGS8[rep['prog']], what, rep['form'], rep['reps'], res)
