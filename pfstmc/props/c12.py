"""C12 - a failed edit leaves the target tree untouched and still editable.

bfs over histories mixing valid edits with *invalid requests* (natural faults only); every transition that raises is
checked: (src, positioned dump) unchanged, modification registry empty, the same failing request fails the same way
again, and a probe sequence of valid edits gives exactly what it gives on a fresh twin of the same source."""
from __future__ import annotations

import ast

from .. import edits as E
from .. import explore as X
from .. import oracle as O
from ..fstnav import live_vs_parse, registry_leftover
from ..programs import PROGRAMS

ID = 'C12'
_E_APPLY = E.apply
LEVEL = 'model_checking'
TECHNIQUE = ('explicit-state bfs over edit histories with exhaustive enumeration of invalid requests (fault alphabet) at '
             'every target; pre/post state comparison and differential probe against a fresh twin on every raising transition')
LEVEL_TEXT = ('every (target x kind of invalid request) of the fault alphabet (unparsable / wrong-category / miscounted code, bad options, consumed and foreign operands, bad indices, identifier lists, primitive fields with values of the wrong kind or range) plus every naturally refused request of the '
              'edit alphabet is issued on the real objects from every start program and after every valid first edit; all '
              'raising transitions are checked, none sampled')
LEVEL_NOTE = ('trusted: CPython ast for state comparison; faults are natural invalid requests only (no exceptions are '
              'injected into pfst internals)')
RULE = ('bfs depth<=2; transitions = requests issued; a raising transition is non-trivial/distinct by (start state, request); '
        'states = canonical (kind, indent, src, positioned dump); after a raise: state identical, registry empty, second '
        'identical request raises again with identical state, then probe edits == probe edits on fresh twin and C01')
ASSUMPTIONS = ['FST objects passed as code are built fresh for every request (they are consumed)',
               'KeyboardInterrupt-like asynchronous faults are out of scope']
BOUNDS = {
    'quick': '62 programs; depth 1: full fault alphabet (29 fault kinds at every node/list field and at the root) + 1-code edit alphabet; '
             'depth 2 (programs under 90 characters): after every distinct valid first edit (replace, remove, insert, slice put, comment put), the reduced (lite) fault alphabet',
    'thorough': 'depth 1 with the 6-code alphabet, 3 forms and 2 option settings on every program; depth 2 (programs under 90 characters, 48 of 62): the full fault alphabet after every distinct valid first edit of that alphabet (a deeper run over all programs did not complete within the time available for this build and is not claimed)',
}

BAD_PRIMS = {
    'AnnAssign': [('simple', [1, 2, -1, 'x', None])],          # 1 is invalid unless the target is a bare name
    'ImportFrom': [('level', [-1, 'x', 1.5]), ('module', ['1a', 'a b', 'a.', 'if'])],
    'comprehension': [('is_async', [2, 'x', None])],
    'Name': [('id', ['1x', 'a b', 'if', '', 'a.b'])],
    'Attribute': [('attr', ['1x', 'a b', 'if', ''])],
    'alias': [('name', ['1x', 'a b', 'a..b']), ('asname', ['1x', 'a b', 'if', 'a.b'])],
    'FunctionDef': [('name', ['1x', 'a b', '', 'if'])],
    'ClassDef': [('name', ['1x', 'a b', ''])],
    'keyword': [('arg', ['1x', 'a b', 'if'])],
    'arg': [('arg', ['1x', 'a b', 'if', ''])],
    'ExceptHandler': [('name', ['1x', 'a b', 'if'])],
    'MatchAs': [('name', ['1x', 'a b', 'if'])],
    'MatchStar': [('name', ['1x', 'a b'])],
    'Constant': [('kind', ['x', 1])],
}
IDENT_LISTS = [['x', 'None'], ['True', 'y'], ['x', 'a.b'], ['x', 'if'], ['x', ''], ['x', '(y)'], ['False'], ['x', '1'], ['x', 'y z'],
               ['__debug__', 'x', 'None', 'y']]
BAD_CODE = ['a +', ')', 'if', 'x = 1', 'pass\n  y', '1 2', '', '*', 'é é', 'lambda', 'a, *', '(', 'yield = 1']


def enumerate_faults(src, tree=None, lite=False):
    tree = tree or ast.parse(src)
    bad_code = BAD_CODE[:2] if lite else BAD_CODE
    for path, parent, field, idx, child in O.iter_slots(tree, E.EDIT_TYPES):
        typ, card = O.field_info(parent, field)
        p = [list(x) for x in path]
        pp = p[:-1]
        for bc in bad_code:
            if typ == 'stmt' and bc in ('x = 1', '', 'é é'):
                continue
            yield {'op': 'replace', 'path': p, 'code': [bc, None, 'src'], 'opts': {}}
        if typ in ('stmt', 'excepthandler', 'match_case'):  # valid code, but not exactly ONE element (one=True is the default)
            many = {'stmt': ['x = 1\ny = 2', '', '# only a comment'], 'excepthandler': ['except A: pass\nexcept B: pass'],
                    'match_case': ['case 1: pass\ncase 2: pass']}[typ]
            for bc in many[:1] if lite else many:
                yield {'op': 'replace', 'path': p, 'code': [bc, None, 'src'], 'opts': {}}
        wrong = {'expr': 'x = 1', 'stmt': 'except: pass', 'pattern': 'a + b', 'arg': 'a.b', 'keyword': 'x', 'alias': '1',
                 'withitem': 'pass', 'excepthandler': 'x', 'match_case': 'x', 'comprehension': 'x', 'type_param': '1',
                 'arguments': 'pass'}[typ]
        for o in ({},) if lite else ({}, {'coerce': False}, {'raw': 'auto'}):
            yield {'op': 'replace', 'path': p, 'code': [wrong, None, 'src'], 'opts': o}
        yield {'op': 'replace', 'path': p, 'code': ['x', None, 'src'], 'opts': {'nonopt': 1}}
        if lite:
            yield {'op': 'fault', 'fault': 'consumed', 'path': p, 'typ': typ}
            continue
        yield {'op': 'replace', 'path': p, 'code': ['x', None, 'src'], 'opts': {'trivia': 'bogus'}}
        yield {'op': 'replace', 'path': p, 'code': ['x', None, 'src'], 'opts': {'pars': 3}}
        yield {'op': 'replace', 'path': p, 'code': ['x', None, 'src'], 'opts': {'to': 'SELF'}}
        yield {'op': 'fault', 'fault': 'consumed', 'path': p, 'typ': typ}
        yield {'op': 'fault', 'fault': 'nonroot', 'path': p, 'typ': typ}
        yield {'op': 'fault', 'fault': 'ownroot', 'path': p}
        yield {'op': 'fault', 'fault': 'ownparent', 'path': p}
        if idx is None:
            yield {'op': 'fault', 'fault': 'idx-on-scalar', 'path': pp, 'field': field}
            if not card:
                yield {'op': 'fault', 'fault': 'del-required', 'path': p}
    # the root itself: replacing the whole tree must be as atomic as any other put
    for bc in bad_code[:1] if lite else bad_code:
        if bc:
            yield {'op': 'replace', 'path': [], 'code': [bc, None, 'src'], 'opts': {}}
    yield {'op': 'fault', 'fault': 'consumed', 'path': [], 'typ': 'stmt'}
    if not lite:
        yield {'op': 'fault', 'fault': 'nonroot', 'path': [], 'typ': 'stmt'}
        yield {'op': 'replace', 'path': [], 'code': ['x', None, 'src'], 'opts': {'to': 'SELF'}}
        yield {'op': 'replace', 'path': [], 'code': ['x', None, 'src'], 'opts': {'nonopt': 1}}
        yield {'op': 'fault', 'fault': 'del-required', 'path': []}
    for path, node in O.iter_nodes(tree):
        p = [list(x) for x in path]
        ncls = node.__class__.__name__
        if not lite:
            yield {'op': 'fault', 'fault': 'unknown-field', 'path': p}
        if isinstance(node, (ast.expr, ast.pattern)) and not lite:
            yield {'op': 'fault', 'fault': 'unpar-bad-arg', 'path': p, 'text': 'tuple'}   # invalid value of a keyword argument:
            yield {'op': 'fault', 'fault': 'par-bad-arg', 'path': p, 'text': 'sometimes'}  # validate first, then touch the source
        if ncls in ('Call', 'ClassDef'):  # code that parses but is refused for category / ordering reasons (after the target was prepared)
            vf = '_args' if ncls == 'Call' else '_bases'
            yield {'op': 'fault', 'fault': 'arglike-order', 'path': p, 'field': vf, 'text': 'k=v', 'idx': 0}
            yield {'op': 'fault', 'fault': 'arglike-order', 'path': p, 'field': 'keywords', 'text': 'x', 'idx': 0}
            if not lite:
                yield {'op': 'fault', 'fault': 'arglike-order', 'path': p, 'field': vf, 'text': '**kw', 'idx': 0}
                yield {'op': 'fault', 'fault': 'arglike-order', 'path': p, 'field': 'keywords', 'text': '*s', 'idx': 'end'}
        for fld, vals in BAD_PRIMS.get(ncls, ()):  # primitive fields: values of the wrong kind / out of range / not valid for this node
            if fld == 'simple' and isinstance(node.target, ast.Name):
                vals = [v for v in vals if v != 1]
            for v in (vals[:2] if lite else vals):
                yield {'op': 'fault', 'fault': 'bad-primitive', 'path': p, 'field': fld, 'text': repr(v)}
        if ncls in ('Global', 'Nonlocal'):  # code given as a Python list of strings (identifiers for names, else source lines)
            for names in (IDENT_LISTS[:3] if lite else IDENT_LISTS):
                for i in (0, 'end'):
                    yield {'op': 'fault', 'fault': 'identifier-list', 'path': p, 'text': '|'.join(names), 'idx': i}
        if ncls == 'arguments':  # parameter code that parses but may break an ordering rule; extraction with an impossible conversion
            for text in ('p, /', '*v', '**k', 'q') if not lite else ('p, /', '**k'):
                for i in (0, 'end'):
                    yield {'op': 'fault', 'fault': 'arguments-order', 'path': p, 'text': text, 'idx': i}
            if not lite:
                na = len(node.posonlyargs) + len(node.args) + len(node.kwonlyargs) + (node.vararg is not None) + (node.kwarg is not None)
                for i in range(na):
                    for j in range(i + 1, na + 1):
                        for conv in ('pos', 'arg', 'kw'):
                            yield {'op': 'fault', 'fault': 'arguments-cut-as', 'path': p, 'start': i, 'stop': j, 'text': conv}
        for field, typ, card in O.GRAMMAR.get(ncls, ()):
            if card == '*' and typ in E.EDIT_TYPES:
                n = len(getattr(node, field))
                for i in (n,) if lite else (n, -n - 1, n + 5):
                    yield {'op': 'fault', 'fault': 'idx-range', 'path': p, 'field': field, 'idx': i}
                for a, b in ((2, 1), (n + 1, n), ('end', 0)) if n else ((1, 0),):
                    yield {'op': 'fault', 'fault': 'reversed', 'path': p, 'field': field, 'start': a, 'stop': b, 'typ': typ}
                yield {'op': 'fault', 'fault': 'slice-bad-code', 'path': p, 'field': field, 'n': n}
                if typ in ('stmt', 'excepthandler', 'match_case'):
                    two = {'stmt': 'x = 1\ny = 2', 'excepthandler': 'except A: pass\nexcept B: pass', 'match_case': 'case 1: pass\ncase 2: pass'}[typ]
                    for i in sorted({0, n}):
                        yield {'op': 'insert', 'path': p, 'field': field, 'idx': i, 'code': [two, None, 'src'], 'opts': {}}
                if typ in ('stmt', 'excepthandler', 'match_case') or not lite:
                    code = E.K_ONE[typ][1 if len(E.K_ONE[typ]) > 1 else 0]
                    for bo in (({'pep8space': 2}, {'trivia': (1, 2, 3)}) if lite else
                               ({'pep8space': 2}, {'trivia': (1, 2, 3)}, {'docstr': 'bogus'}, {'elif_': 3}, {'pars': 'x'})):
                        for i in sorted({0, n}) if lite else range(n + 1):
                            yield {'op': 'insert', 'path': p, 'field': field, 'idx': i, 'code': [code[0], code[1], 'src'],
                                   'opts': bo}


def apply(fst, root, op):
    if op['op'] != 'fault':
        if op.get('opts', {}).get('to') == 'SELF':
            op = dict(op, opts={'to': E.node_at(root, op['path'])})
            n = E.node_at(root, op['path'])
            return n.replace('x', to=n, norm=True)
        return _E_APPLY(fst, root, op)
    FST = fst.FST
    n = E.node_at(root, op['path'])
    k = op['fault']
    if k == 'consumed':
        text, mode = E.K_ONE[op['typ']][0][:2]
        code = FST(text, mode)
        scratch = FST('[q]' if op['typ'] == 'expr' else 'pass\npass', 'exec')
        try:
            (scratch.body[0].value.elts[0] if op['typ'] == 'expr' else scratch.body[0]).replace(code)
        except Exception:  # noqa: BLE001
            pass
        return n.replace(code, norm=True)
    if k == 'nonroot':
        other = FST('zz = [q, r]', 'exec')
        return n.replace(other.body[0].value.elts[0], norm=True)
    if k == 'ownroot':
        return n.replace(root, norm=True)
    if k == 'ownparent':
        return n.replace(n.parent, norm=True)
    if k == 'idx-on-scalar':
        return n.put('x', 0, op['field'], norm=True)
    if k == 'del-required':
        return n.remove(norm=True)
    if k == 'unknown-field':
        return n.put('x', 0, 'nosuchfield', norm=True)
    if k == 'idx-range':
        return n.put('x', op['idx'], op['field'], norm=True)
    if k == 'reversed':
        return n.put_slice(E.K_SEQ.get(op['typ'], [('x', None)])[0][0], op['start'], op['stop'], op['field'], norm=True)
    if k == 'unpar-bad-arg':
        n.unpar(node=op['text'])
        raise ValueError('unpar() accepted an invalid node= argument')  # it has to refuse: count an acceptance as the fault
    if k == 'par-bad-arg':
        n.par(force=op['text'])
        raise ValueError('par() accepted an invalid force= argument')
    if k == 'pars-bad-arg':
        n.pars(shared='maybe')
        return None
    if k == 'arglike-order':
        return n.put_slice(op['text'], op['idx'], op['idx'], op['field'], norm=True)
    if k == 'bad-primitive':
        r = n.put(eval(op['text']), field=op['field'], norm=True)  # noqa: S307  (our own literals)
        raise ValueError(f"put({op['text']}, {op['field']!r}) accepted")  # it has to refuse: count an acceptance as the fault
    if k == 'identifier-list':
        names = op['text'].split('|')
        if op['idx'] == 'end':
            return n.put_slice(names, 'end', None, 'names', norm=True)
        return n.put_slice(names, 0, 1, 'names', norm=True)
    if k == 'arguments-order':
        return n.put_slice(op['text'], op['idx'], op['idx'], '_all', norm=True)
    if k == 'arguments-cut-as':
        return n.get_slice(op['start'], op['stop'], '_all', cut=True, args_as=op['text'], norm=True)
    if k == 'slice-bad-code':
        return n.put_slice('a +', 0, op['n'], op['field'], norm=True)
    raise ValueError(k)


def fault_id(op):
    if op['op'] != 'fault':
        return E.op_id(op)
    extra = ' '.join(f'{k}={op[k]}' for k in ('field', 'idx', 'start', 'stop', 'text') if k in op)
    return f"fault:{op['fault']} {O.path_str([tuple(x) for x in op['path']])} {extra}".strip()


ROOTS = [  # trees whose root is not a Module: every kind of stand-alone node a put can be aimed at
    ('case [a, b] if c: pass', 'match_case'), ('except (E, F) as e: pass', 'ExceptHandler'), ('x = [a, b]', 'stmt'), ('f(a, k=b)', 'expr'),
    ('a, b=1, *c', 'arguments'), ('a as b', 'withitem'), ('for a in b if c', 'comprehension'), ('k=v', 'keyword'), ('[a, *b]', 'pattern'),
    ('m.n as o', 'alias'), ('T: int', 'type_param'), ('if a:\n    b\nelse:\n    c', 'stmt'), ('x: int = 1', 'stmt'),
]
ROOT_BAD = ['a +', ')', 'x = ', 'if', '1 1', '[', 'é é', 'pass', 'case 1: pass', '*', ':']


def run_rootfaults(fst, ri, tier, res):
    """Invalid code put (element mode and raw mode) at every node of a tree whose root is a stand-alone node: whatever raises must
    leave source, tree and positions as they were and the tree usable."""
    src, mode = ROOTS[ri]
    root0 = fst.FST(src, mode)
    paths = [p for p, a in O.iter_nodes(root0.a) if getattr(a, 'f', None) is not None]
    for path in paths:
        for code in ROOT_BAD:
            for opts in ({}, {'raw': True}, {'raw': 'auto'}):
                root = fst.FST(src, mode)
                n = root
                for f, i in path:
                    v = getattr(n.a, f)
                    n = (v[i] if i is not None else v).f
                pre = (root.src, O.dump_pos(root.a))
                oid = ','.join(f'{k}={v!r}' for k, v in opts.items())
                cid = f'C12/root{ri}:{mode}/{O.path_str(path) or "<root>"}<-{code!r}/{oid}'
                rep = {'rootfault': ri}
                res.evals += 1
                res.transitions += 1
                try:
                    n.replace(code, norm=True, **opts)
                    res.outcomes['root-request-accepted'] += 1
                    continue
                except Exception as e:  # noqa: BLE001
                    exc = e
                res.traces += 1
                res.outcomes[f'rootfault->{exc.__class__.__name__}'] += 1
                params = {'op': 'replace', 'fault': 'root-bad-code', 'exc': exc.__class__.__name__, 'raw': bool(opts)}
                try:
                    now = (root.src, O.dump_pos(root.a))
                except Exception as e:  # noqa: BLE001
                    res.fail(cid, 'tree-unreadable-after-failed-edit', repr(e), params, rep)
                    continue
                if now != pre:
                    res.fail(cid, 'failed-edit-changed-' + ('source' if now[0] != pre[0] else 'tree/positions'),
                             f'root={src!r} ({mode})\nrequest=replace {O.path_str(path)} <- {code!r} {opts}\nraised={exc!r}\nnow={now[0]!r}', params, rep)
                    continue
                if registry_leftover():
                    res.fail(cid, 'modification-registry-not-empty', '', params, rep)
                    continue
                # the tree is still editable: the same node takes valid code (its own source) exactly like on a fresh twin
                if n is not root and not isinstance(n.a, (ast.expr_context, ast.operator, ast.boolop, ast.unaryop, ast.cmpop)):
                    twin = fst.FST(src, mode)
                    t = twin
                    for f, i in path:
                        v = getattr(t.a, f)
                        t = (v[i] if i is not None else v).f
                    outs = []
                    for tree_, node_ in ((twin, t), (root, n)):
                        try:
                            node_.replace(node_.own_src(), norm=True)
                            outs.append(('ok', tree_.src, O.dump_pos(tree_.a)))
                        except Exception as e:  # noqa: BLE001
                            outs.append(('raised', e.__class__.__name__, None))
                    if outs[0] != outs[1]:
                        res.fail(cid, 'follow-up-edit-differs-from-fresh-tree', f'fresh={outs[0][:2]!r}\nafter-failure={outs[1][:2]!r}', params, rep)
                        continue
                res.nontriv(ri, path, code, oid)


def shards(tier):
    out = [{'rootfault': r} for r in range(len(ROOTS))]
    for i, src in enumerate(PROGRAMS):
        parts = (4 if len(src) < 50 else 16) if tier == 'quick' else (16 if len(src) < 50 else 32)  # big programs are the long pole
        out += [{'prog': i, 'part': [r, parts]} for r in range(parts)]
    return out


_PROBE_CACHE = {}


def _probe_ops(src):
    if src not in _PROBE_CACHE:
        if len(_PROBE_CACHE) > 2000:
            _PROBE_CACHE.clear()
        _PROBE_CACHE[src] = _probe_ops_(src)
    return _PROBE_CACHE[src]


def _probe_ops_(src):
    ops = [{'op': 'append', 'path': [], 'field': 'body', 'code': ['probe = 1', 'stmt', 'src'], 'opts': {}}]
    cands = list(E.enumerate_ops(src, nk=1, nks=1, forms=('src',), kinds=('replace', 'remove', 'insert')))
    for i in sorted({0, len(cands) // 3, (2 * len(cands)) // 3, len(cands) - 1}):
        if 0 <= i < len(cands):
            ops.append(cands[i])
    return ops


def _check_raise(fst, src0, root, pre, hist, exc, cid, res, tier):
    op = hist[-1]
    params = {'op': op['op'], 'fault': op.get('fault'), 'exc': exc.__class__.__name__}
    rep = {'src': src0, 'hist': hist}
    res.traces += 1
    res.nontriv(pre[2], fault_id(op))
    res.outcomes[f"fault:{op.get('fault', op['op'])}->{exc.__class__.__name__}"] += 1

    def bad(sym, detail):
        res.fail(cid, sym, f'start={src0!r}\npre={pre[2]!r}\nrequest={fault_id(op)}\nraised={exc!r}\n{detail}', params, rep)

    try:
        now = X.canon(root)
    except Exception as e:  # noqa: BLE001
        return bad('tree-unreadable-after-failed-edit', repr(e))
    if now != pre:
        what = 'source' if now[2] != pre[2] else 'tree/positions'
        return bad(f'failed-edit-changed-{what}', f'now={now[2]!r}\n' + O.first_diff(now[3], pre[3]))
    left = registry_leftover()
    if left:
        return bad('modification-registry-not-empty', f'{left} entries left')
    # second identical request
    try:
        apply(fst, root, op)
        second = None
    except Exception as e2:  # noqa: BLE001
        second = e2
    if second is None or second.__class__ is not exc.__class__:
        if not (op.get('fault') in ('consumed', 'nonroot')):  # those build fresh operands: always same anyway
            return bad('same-request-behaves-differently-second-time', f'second={second!r} now={root.src!r}')
    try:
        if X.canon(root) != pre and second is not None:
            return bad('second-failed-edit-changed-tree', f'now={root.src!r}')
    except Exception as e:  # noqa: BLE001
        return bad('tree-unreadable-after-failed-edit', repr(e))
    if second is None:
        return
    # probe: valid edits behave exactly as on a fresh twin
    twin = fst.FST(pre[2], 'exec')
    twin.indent = root.indent
    n_ok = 0
    pre_src = pre[2]
    for pop in _probe_ops(pre[2]):
        try:
            _E_APPLY(fst, twin, pop)
            texc = None
        except Exception as e:  # noqa: BLE001
            texc = e
        try:
            _E_APPLY(fst, root, pop)
            rexc = None
        except Exception as e:  # noqa: BLE001
            rexc = e
        if (texc is None) != (rexc is None):
            return bad('follow-up-edit-differs-from-fresh-tree',
                       f'probe={E.op_id(pop)} fresh={texc!r} after-failure={rexc!r}')
        if texc is not None:
            twin = fst.FST(pre_src, 'exec')
            twin.indent = root.indent
            if root.src != pre_src or ast.dump(root.a, include_attributes=True) != ast.dump(twin.a, include_attributes=True):
                return bad('failed-probe-changed-tree', f'probe={E.op_id(pop)}')
            continue
        if root.src != twin.src:
            return bad('follow-up-edit-differs-from-fresh-tree',
                       f'probe={E.op_id(pop)}\nfresh={twin.src!r}\nafter-failure={root.src!r}')
        res.transitions += 1
        n_ok += 1
        pre_src = root.src
        if tier == 'quick' and n_ok % 4:
            continue  # source compared after every probe; trees (with positions) after every 4th and after the last one
        if ast.dump(root.a, include_attributes=True) != ast.dump(twin.a, include_attributes=True):
            return bad('follow-up-edit-differs-from-fresh-tree',
                       f'probe={E.op_id(pop)}\nfresh={twin.src!r}\nafter-failure={root.src!r} (trees differ)')
        c01 = live_vs_parse(root, 'Module')
        if c01:
            return bad('C01-after-follow-up-edit', c01)
    if n_ok and (ast.dump(root.a, include_attributes=True) != ast.dump(twin.a, include_attributes=True) or live_vs_parse(root, 'Module')):
        return bad('follow-up-edit-differs-from-fresh-tree', f'after the last probe\nfresh={twin.src!r}\nafter-failure={root.src!r}')
    res.sample({'start': pre[2][:80], 'request': fault_id(op), 'raised': repr(exc)[:80]})


def run_shard(desc, tier, res):
    import fst
    import pfstmc.explore as XX
    if 'rootfault' in desc:
        run_rootfaults(fst, desc['rootfault'], tier, res)
        return
    src0 = PROGRAMS[desc['prog']]
    a1 = dict(nk=1, nks=1, forms=('src',), opts=({},), kinds=('replace', 'remove', 'insert', 'put_slice', 'line_comment')) if tier == 'quick' else dict(nk=6, nks=3, opts=({}, {'trivia': False}))
    a2 = dict(nk=1, nks=1, forms=('src',), opts=({},))

    def enum(src, d):
        t = ast.parse(src)
        if d == 0:
            for f in enumerate_faults(src, t):
                yield dict(f, leaf=True)  # level-1 faults: judged once, never a start state for level 2 (valid edits are)
            yield from E.enumerate_ops(src, tree=t, **a1)
        else:
            yield from enumerate_faults(src, t, lite=tier == 'quick')
            if tier == 'thorough':
                yield from E.enumerate_ops(src, tree=t, **a2)

    def on_state(root, pre, hist, cid, c2):
        bad = live_vs_parse(root, 'Module')
        return not bad  # C01 violations are C01's business; do not expand them

    def on_raise(root, pre, hist, exc, cid):
        _check_raise(fst, src0, root, pre, hist, exc, cid, res, tier)

    # bfs applies ops through E.apply; route fault ops through ours
    orig = E.apply
    E.apply = lambda f, r, o: apply(f, r, o)  # noqa: E731
    try:
        XX.bfs(fst, src0, 2 if len(src0) < 90 else 1, [a1, a2], tuple(desc['part']), res, on_state, on_raise=on_raise,
               cid_prefix=f"C12/p{desc['prog']}/", enum=enum)
    finally:
        E.apply = orig


def replay(rep, res):
    import fst
    if 'rootfault' in rep:
        run_rootfaults(fst, rep['rootfault'], 'quick', res)
        return
    root = fst.FST(rep['src'], 'exec')
    for op in rep['hist'][:-1]:
        apply(fst, root, op)
    pre = X.canon(root)
    try:
        apply(fst, root, rep['hist'][-1])
        print('last request did not raise; src =', repr(root.src))
    except Exception as exc:  # noqa: BLE001
        print('raised', repr(exc))
        _check_raise(fst, rep['src'], root, pre, rep['hist'], exc, 'replay', res, 'quick')
