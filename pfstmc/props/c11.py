"""C11 - whitespace-only source edits in offset mode keep every node on its text.

enum engine: every gap between adjacent tokens of every program x a trivia-replacement alphabet (kept only when CPython
parses the new source to the same structure); put_src(action='offset') is called on the innermost node strictly
containing the spot; judge: positioned dump == ast.parse(new source)."""
from __future__ import annotations

import ast
import re
import tokenize

from .. import oracle as O
from .. import battery as B
from ..explore import warm_caches
from ..core import CaseTimeout, deadline
from ..programs import PROGRAMS as BASE

ID = 'C11'
LEVEL = 'model_checking'
TECHNIQUE = ('bounded exhaustive enumeration of (program, token gap, trivia replacement) and depth-2 sequences on the real '
             "put_src(action='offset'), every execution compared with a from-scratch CPython parse incl. all positions")
LEVEL_TEXT = ('every gap between adjacent tokens (incl. start/end of source, next to zero-width nodes, after multi-byte text) '
              'of 80 programs x 16 trivia replacements is executed on the real code; depth 2 repeats a second edit after '
              'every first; nothing is sampled')
LEVEL_NOTE = ('trusted: CPython tokenize/ast; the target node is addressed by descending pfst children whose reported loc '
              'strictly contains the spot (addressing only; locations themselves are judged by C06)')
RULE = ('enum: case = (program, gap, replacement); kept iff ast.parse(new) has the same structure; non-trivial = distinct '
        'cases whose source changed; states = distinct sources before/after; traces = executions compared with ast.parse')
ASSUMPTIONS = ['Module-rooted trees']
BOUNDS = {'quick': '66 programs (incl. self-documenting f-strings, multi-byte multi-line gaps), all gaps, 16 replacements, depth 1; depth 2 on 12 programs with 5 replacements',
          'thorough': '52 programs, all gaps and all interior positions of multi-char gaps, depth 2 on all programs'}

EXTRA = [
    "def f(): pass\nclass C(): pass\nx = ()\ny = f()",
    "def g( a , * , b = 1 ) : return [ a , b ]",
    "x = {  'é' : ü , }\nδ = ( 'π' )",
    "if a :\n    pass\nelse :\n    pass",
    "lam = lambda : 0\nlam2 = lambda * a , ** k : a",
    "with ( a ) as b , ( c ) : pass",
    "for i , j in ( k ) : i ( ) ( )",
    "@ d ( 1 ,\n     2 )\n@ e\ndef f ( ) : pass",
    "match s :\n    case [ a , * b ] | { 1 : c } : pass",
    "t = a [ b : c , d ] . e\nu = ( yield )",
    "x = f'{ a !r:>{ w }}' 'é' \"s\"",
    "async def f ( ) :\n    return [ x async for x in y if z ]",
]
FSTR = [  # self-documenting f-string expressions ('{x = }' keeps its source text in a hidden Constant), multi-byte text before them
    "print(f'Größe: {w * h = }')\nt = f'{café = }'",
    "s = 'naïve'; t = f'{(a , b) = }' f'{ x = !r:>{ w }}'",
    "u = f'''é {\n a = } ü { b  =  }''' 'ö'",
    # every tail a self-documenting field can have: conversion without format spec, format spec without conversion, both, neither
    "v = f'{a = !r} {a + b = !s}'\nw = f'{ a=!a } { c = :>5} {d=}'\nx = f'{ e  =  !r:{ n }}'",
]
MBML = [  # multi-line trivia whose first line has multi-byte text before the gap and whose last line is ASCII (and the reverse)
    "names = [\"Zoë\",\n         other]\nf('é',\n  b)",
    "x = ('ü' +\n     y)  # é\nz = {'k':  # ñ\n     v}\nw = [a,\n  'ö']",
]
GENERIC = [  # decorated PEP 695 generics: decorators, type parameters and arguments all live in the header
    "@functools.cache\ndef first[T, U: int](a: T) -> U: pass\n@d\nclass K[T, *V](B): pass",
]
NESTED1 = [  # blocks written on one line inside blocks: the trailing comment of the line belongs to the extent of each of them
    "if a:\n    if b: c   \nx\n",
    "def f():\n    for i in j:\n        while k: l = [m]  \n    return n  ",
    # nested blocks followed by a comment and further comment lines (a gap of several lines after the blocks' common last line)
    "if a:\n  if b:\n    pass  # c1\n    # c2\n    # c3\nx = 1\n",
    # a block at the end of an except handler / case that is followed by another section of the same statement
    "try:\n    a\nexcept E:\n    if b: c  # c1\nelse:\n    d\nmatch s:\n    case 1:\n        while e: f  # c2\n    case _: pass",
]
FSTR2 = [  # f-strings nested in a self-documenting field without being its value (inside a call, an operator, a list; quotes re-used)
    "a = f'{len(f'{x }') = }'\nb = f'{f\"{x }\" + y = }'\nc = f'{[f'{x!r :>{w }}'] = !s:>10}'",
    "d = f'{g(f'{ y }', k=f'{z :>{ n }}') = :>{ w }} {f'{ q }'}'",
]
ARGLAY = [  # arguments / bases and keywords laid out over lines with falling columns: source order is (line, column) order, neither alone
    "r = call(a, key=1,\n    *rest)\ns = f(k=v,\n  *p,\n *q, **w)",
    "class C(B, m=M,\n  *bases): pass\nt = g(      x,\n    k=y,\n  *z)(h)",
]
PROGS = BASE[:46] + EXTRA + BASE[46:] + FSTR + MBML + GENERIC + NESTED1 + ARGLAY + FSTR2  # positional case ids: later additions go to the end
for _p in PROGS:
    ast.parse(_p)

SIG = O.SIG_TOKS


def gaps(src):
    """(start offset, end offset) of the text between consecutive significant tokens, plus leading/trailing."""
    lines = src.split('\n')
    toks = [t for t in O.tokens(src) if t.type in SIG and t.type != tokenize.COMMENT]
    offs = []
    for t in toks:
        offs.append((O.offset_of(lines, t.start[0] - 1, t.start[1]), O.offset_of(lines, t.end[0] - 1, t.end[1])))
    out = [(0, offs[0][0])] if offs else []
    for a, b in zip(offs, offs[1:]):
        out.append((a[1], b[0]))
    if offs:
        out.append((offs[-1][1], len(src)))
    return out


def replacements(src, g1, g2, tier):
    old = src[g1:g2]
    cand = []
    for ins in (' ', '  ', '\t'):
        cand.append((g1, g1, ins))
        if g2 != g1:
            cand.append((g2, g2, ins))
    if old:
        cand += [(g1, g2, ''), (g1, g2, ' '), (g1, g1 + 1, ''), (g2 - 1, g2, '')]
        if len(old) > 2:
            cand.append((g1 + 1, g2 - 1, ''))
            if tier == 'thorough':
                for m in range(g1 + 1, g2):
                    cand.append((m, m, ' '))
                    cand.append((m, m + 1, ''))
    for ins in ('\n', ' # c\n', ' \\\n', '\n\n', ' \\\n  '):
        cand.append((g1, g1, ins))
        cand.append((g1, g2, ins))
    seen = set()
    for o1, o2, t in cand:
        if (o1, o2, t) in seen or (o1 == o2 and not t) or src[o1:o2] == t:
            continue
        seen.add((o1, o2, t))
        yield o1, o2, t


def off2lc(src, off):
    return src.count('\n', 0, off), off - (src.rfind('\n', 0, off) + 1)


def innermost(root, ln, col, eln, ecol):
    """Descend to the innermost node whose reported loc strictly contains the spot (addressing only)."""
    node = root
    while True:
        nxt = None
        for ch in ast.iter_child_nodes(node.a):
            f = getattr(ch, 'f', None)
            if f is None:
                continue
            if isinstance(ch, ast.Constant) and isinstance(node.a, (ast.JoinedStr, getattr(ast, 'TemplateStr', ast.JoinedStr))):
                continue  # literal parts of an f-string (incl. the hidden '{x = }' text): the spot is their content, not trivia
            loc = f.loc
            if loc is None:
                continue
            if (loc[0], loc[1]) < (ln, col) and (eln, ecol) < (loc[2], loc[3]):
                nxt = f
                break
        if nxt is None:
            return node
        node = nxt


def run_case(fst, pi, hist, res):
    src0 = PROGS[pi]
    root = fst.FST(src0, 'exec')
    cur = src0
    cid = f'C11/p{pi}/' + '|'.join(f'[{a}:{b}]<-{t!r}' for a, b, t in hist)
    rep = {'prog': pi, 'hist': [list(h) for h in hist]}
    res.evals += 1
    for k, (o1, o2, text) in enumerate(hist):
        new = cur[:o1] + text + cur[o2:]
        ln, col = off2lc(cur, o1)
        eln, ecol = off2lc(cur, o2)
        res.transitions += 1
        warm_caches(root)  # every cacheable question has been asked before the edit: what is cached has to follow the edit
        try:
            with deadline(10):
                tgt = innermost(root, ln, col, eln, ecol)
                tgt.put_src(text, ln, col, eln, ecol, 'offset')
        except CaseTimeout:
            res.fail(cid, 'hang', f'src={cur!r}', {'prog': pi}, rep)
            return
        except Exception as e:  # noqa: BLE001
            res.fail(cid, 'offset-edit-raised:' + e.__class__.__name__,
                     f'src={cur!r}\nspot=[{o1}:{o2}] text={text!r}\nnew={new!r}\n{e!r}', {'prog': pi}, rep)
            return
        want = ast.parse(new)
        res.traces += 1
        try:
            got_src, got = root.src, O.dump_pos(root.a)
        except Exception as e:  # noqa: BLE001
            res.fail(cid, 'tree-unreadable', repr(e), {'prog': pi}, rep)
            return
        if got_src != new:
            res.fail(cid, 'source-not-the-requested-splice', f'src={cur!r}\nwant={new!r}\ngot={got_src!r}', {'prog': pi}, rep)
            return
        if got != O.dump_pos(want):
            res.fail(cid, 'positions-differ-from-full-parse',
                     f'src={cur!r}\nspot=[{o1}:{o2}] {ln},{col}..{eln},{ecol} text={text!r} target={tgt!r}\nnew={new!r}\n'
                     + O.first_diff(got, O.dump_pos(want)), {'prog': pi}, rep)
            return
        stale = B.diff(B.battery(root, ('loc', 'pars', 'src')), B.battery(fst.FST(new, 'exec'), ('loc', 'pars', 'src'), reverse=True))
        if stale:
            res.fail(cid, 'query-differs-from-fresh-tree-after-offset-edit',
                     f'src={cur!r}\nspot=[{o1}:{o2}] text={text!r} target={tgt!r}\nnew={new!r}\n' + '\n'.join(stale), {'prog': pi}, rep)
            return
        res.state(new)
        cur = new
    res.nontriv(cid)
    res.outcomes['ok'] += 1
    res.sample({'program': src0, 'edits': [list(h) for h in hist], 'result': cur})


_DEBUG_FIELD = re.compile(r'=\s*(![rsa]\s*)?(:[^{}]*(\{[^{}]*\}[^{}]*)*)?\}')


def debug_fstring_spans(src):
    """Character spans of f-strings that have a self-documenting '{expr = }' field."""
    lines = src.split('\n')
    out = []
    for n in ast.walk(ast.parse(src)):
        if isinstance(n, ast.JoinedStr):
            a = O.offset_of(lines, n.lineno - 1, O.byte2char(lines[n.lineno - 1], n.col_offset))
            b = O.offset_of(lines, n.end_lineno - 1, O.byte2char(lines[n.end_lineno - 1], n.end_col_offset))
            if _DEBUG_FIELD.search(src[a:b]):
                out.append((a, b))
    return out


def _tokseq(src):
    ts = O.tokens(src)
    return None if ts is None else [(t.type, t.string) for t in ts if t.type not in (tokenize.NL, tokenize.COMMENT)]


def _dump_no_fstr_text(tree):
    import copy
    tree = copy.deepcopy(tree)
    for n in ast.walk(tree):
        if isinstance(n, ast.JoinedStr):
            for v in n.values:
                if isinstance(v, ast.Constant):
                    v.value = ''
    return O.dump(tree)


def valid_edits(src, tier, few=False):
    base = O.dump(ast.parse(src))
    dbg = debug_fstring_spans(src)
    for g1, g2 in gaps(src):
        for o1, o2, t in replacements(src, g1, g2, tier):
            if few and t not in (' ', '', '\n', ' # c\n'):
                continue
            if '\\' in t and any(a <= o1 and o2 <= b for a, b in dbg):
                continue  # CPython 3.12 drops a backslash-newline from the recorded '{expr = }' text while it keeps every other
                #           character: what the hidden constant should hold is interpreter-defined, so this is not judged
            new = src[:o1] + t + src[o2:]
            tr = O.try_parse(new)
            if tr is None:
                continue
            if O.dump(tr) != base:
                # inside '{expr = }' whitespace is trivia for the expression although it is recorded in the hidden text constant
                # (every token, incl. the literal parts of the string, must be unchanged)
                if not any(a <= o1 and o2 <= b for a, b in dbg) or _tokseq(new) != _tokseq(src) or \
                        _dump_no_fstr_text(tr) != _dump_no_fstr_text(ast.parse(src)):
                    continue
            yield o1, o2, t


def shards(tier):
    out = [{'prog': i, 'depth': 1} for i in range(len(PROGS))]
    d2 = (0, 1, 10, 12, 20, 23, 26, 28, 40, 41, 47, 50) if tier == 'quick' else range(len(PROGS))
    out += [{'prog': i, 'depth': 2} for i in d2]
    return out


def run_shard(desc, tier, res):
    import fst
    pi = desc['prog']
    src = PROGS[pi]
    res.state(src)
    if desc['depth'] == 1:
        for e in valid_edits(src, tier):
            run_case(fst, pi, [e], res)
    else:
        for e1 in valid_edits(src, tier, few=True):
            mid = src[:e1[0]] + e1[2] + src[e1[1]:]
            for e2 in valid_edits(mid, tier, few=True):
                if abs(e2[0] - e1[0]) > 12 and tier == 'quick':
                    continue  # second edit in the neighbourhood of the first (and everything before it is unaffected)
                run_case(fst, pi, [e1, e2], res)


def replay(rep, res):
    import fst
    run_case(fst, rep['prog'], [tuple(h) for h in rep['hist']], res)
