"""C01 - after any successful edit the source parses to exactly the live tree.

bfs engine over edit histories; in every reached state root.src is parsed from scratch by CPython and compared
(types, values, contexts, every position) with the live AST."""
from __future__ import annotations

import ast

from .. import edits as E
from .. import explore as X
from .. import oracle as O
from ..fstnav import live_vs_parse
from ..programs import PROGRAMS

ID = 'C01'
LEVEL = 'model_checking'
TECHNIQUE = ('explicit-state breadth-first search over edit histories on the real implementation (states de-duplicated '
             'on kind+indent+source+positioned dump), invariant checked in every state against CPython ast.parse')
LEVEL_TEXT = ('all edit histories up to the stated depth over a finite operation alphabet (targets enumerated from the '
              'CPython parse through the ASDL grammar x code alphabet x 3 code forms x option settings) are executed on the '
              'real objects from 62 start programs (par / unpar operations, slices of identifier lists and multi-line slice codes with uneven indentation included), and the closure of programs under a shrinking alphabet is explored to its fixpoint; the invariant is evaluated in every reached state')
LEVEL_NOTE = 'trusted: CPython ast.parse; bounded to the programs/alphabet/depth in BOUNDS; norm=True, pars auto/True only'
RULE = ('bfs: states are histories replayed on fresh trees, canonical form (kind, indent, src, dump+positions); '
        'transitions = operation instances applied; non-trivial = distinct result states whose source differs from the '
        'pre-state; every state is judged by ast.parse(root.src) == live tree incl. all positions')
ASSUMPTIONS = ['every edit is issued with norm=True and pars in (auto, True) as the property requires',
               'a transition that raises is judged by C12, not here']
OPTS_Q = [{}, {'trivia': False}, {'trivia': ('all', 'all')}, {'pars': True}, {'pep8space': False}]
OPTS_T = OPTS_Q + [{'trivia': 'all'}, {'trivia': 'block+1'}, {'pep8space': 1}, {'elif_': False}, {'docstr': False},
                   {'docstr': 'strict'}, {'coerce': False}, {'pars_walrus': True}, {'set_norm': 'call'}, {'op_side': 'right'},
                   {'promote': False}, {'args_as': 'arg'}]
ALPHA = {
    'quick': [dict(nk=7, nks=3, opts=OPTS_Q, extra=('par',)), dict(nk=1, nks=1, forms=('src',), opts=({},))],
    'thorough': [dict(nk=16, nks=7, opts=OPTS_T, extra=('par',)), dict(nk=3, nks=2, forms=('src', 'fst'), opts=({}, {'trivia': False})),
                 dict(nk=1, nks=1, forms=('src',), opts=({},),
                      kinds=('replace', 'remove', 'put_slice', 'del_slice', 'insert'))],
}
PARTS = {'quick': 4, 'thorough': 16}
DEPTH = {'quick': 2, 'thorough': 2}
DEPTH3_PROGRAMS = (0, 1, 5, 10, 11, 15, 22, 23, 28)
BOUNDS = {
    'quick': 'closure (to the fixpoint, histories of up to 9 steps) of 14 programs under the shrinking alphabet (delete anything / replace anything by the simplest code of its category); depth 1: 54 programs x full alphabet (7 codes/category, 3 slice codes, 3 forms, 5 option settings, primitive puts); '
             'depth 2 (every cacheable query asked before each edit): every distinct state reached by the 1-code x 2-option '
             'first-level alphabet (incl. comment rewriting), expanded with the 1-code alphabet',
    'thorough': 'shrinking closure of every program to its fixpoint; depth 1: all 15 codes, 7 slice codes, 17 option settings; depth 2: 3 codes x 2 forms x 2 option sets from '
                'every distinct depth-1 state; depth 3 on 9 programs with the 1-code alphabet',
}


SHRINK = dict(nk=1, nks=1, forms=('src',), opts=({},), kinds=('remove', 'del_slice', 'replace', 'delattr'))
CLOSURE_DEPTH = 14   # more steps than any of the programs has removable parts: the search ends at the fixpoint
CLOSURE_QUICK = (0, 3, 4, 6, 7, 8, 10, 14, 20, 22, 25, 29, 32, 38)  # programs whose closure has fewer than 70 states


UNEVEN_TARGETS = [  # containers whose elements have an indentation of their own, at two depths
    "v = [\n    a,\n    b,\n]\nw = f(\n        c,\n        d,\n    )",
    "def g():\n    t = {\n        k,\n        r,\n    }\n    return (\n        t,\n    )",
    "class C:\n    def m(self):\n        x = [a, b]\n        y = [\n          a]\n        del (\n            p,\n            q)",
]
UNEVEN = dict(nk=1, nks=10, seq_from=7, forms=('src', 'fst'), opts=({}, {'trivia': False}), kinds=('put_slice',))
SEQEXTRA = dict(nk=1, nks=12, seq_from=7, forms=('src',), opts=({},), kinds=('put_slice',))  # the later slice codes at every list of every program


def shards(tier):
    out = [{'uneven': i, 'prog': -1, 'part': [0, 1], 'depth': 1} for i in range(len(UNEVEN_TARGETS))]
    out += [{'seqextra': 1, 'prog': i, 'part': [0, 1], 'depth': 1} for i in range(len(PROGRAMS))]
    # long histories: the closure of each program under the shrinking alphabet (delete anything, replace anything by the simplest
    # code of its category); every operation makes the program smaller or leaves it as it is, so the reachable state space is finite
    for i in (CLOSURE_QUICK if tier == 'quick' else range(len(PROGRAMS))):
        out.append({'prog': i, 'part': [0, 1], 'depth': CLOSURE_DEPTH, 'closure': True})
    for i in range(len(PROGRAMS)):
        if tier == 'quick':  # depth 1 with the full alphabet; depth 2 from the states of a reduced first-level alphabet
            out.append({'prog': i, 'part': [0, 1], 'depth': 1})
            np = 3 if len(PROGRAMS[i]) < 60 else 10  # big programs are the long pole
            for r in range(np):
                out.append({'prog': i, 'part': [r, np], 'depth': 2, 'reduced_first': True})
            continue
        for r in range(PARTS[tier]):
            out.append({'prog': i, 'part': [r, PARTS[tier]], 'depth': DEPTH[tier]})
    if tier == 'thorough':
        for i in DEPTH3_PROGRAMS:
            for r in range(32):
                out.append({'prog': i, 'part': [r, 32], 'depth': 3})
    return out


def _pars_redundant(fst, src, path, node=False):
    """Does `src` with the grouping parentheses (node=True: also the own delimiters of the sequence) of the node at `path` blanked
    out parse to the same tree? (reference for unpar())"""
    from ..fstnav import node_at
    from .. import extents as X
    try:
        n = node_at(fst.FST(src, 'exec'), [tuple(x) for x in path])
        if isinstance(n.a, ast.Starred):
            n = n.a.value.f
        pl = n.pars()
        S = X.Src(src)
        out = list(src)
        ns, ne = S.off(n.ln, n.col), S.off(n.end_ln, n.end_col)
        if node and src[ns] in '([' and src[ne - 1] in ')]' and (n.is_parenthesized_tuple() or n.is_delimited_matchseq()):
            out[ns] = out[ne - 1] = ' '
        elif not getattr(pl, 'n', 0):
            return True
        ps, pe = S.off(pl.ln, pl.col), S.off(pl.end_ln, pl.end_col)
        for a, b, t, _ in S.toks:
            if (t == '(' and ps <= a < ns) or (t == ')' and ne <= a < pe):
                out[a] = ' '
        ref = ast.parse(''.join(out))
        return O.dump(ref) == O.dump(ast.parse(src))
    except Exception:  # noqa: BLE001
        return False


def describe_request(src, op):
    """Input-side facts about a request (pre-state source + request only) for known-finding selectors.
    tail_on_continuation_line_at_eof: the request deletes the trailing elements of an undelimited statement-level comma list
    (del / import / from-import / global / nonlocal) that start on a backslash-continued line of their own and are followed
    by nothing but whitespace up to the end of the source."""
    out = {}
    try:
        k = op['op']
        tree = ast.parse(src)
        lines = src.split('\n')
        path = tuple(tuple(x) for x in op['path'])
        # the pre-state already holds a dangling line continuation (a backslash line followed by a blank line: what an earlier tail
        # deletion of the same known class leaves behind when something still follows) and the request touches the statement list
        # right behind it (deleting what follows makes it dangle at the end of the source, inserting there joins the new code to it)
        dang = [ln for ln in range(len(lines) - 1) if lines[ln].rstrip().endswith('\\') and not lines[ln + 1].strip()]
        if dang:
            idx = None
            if k in ('remove', 'cut') and path and path[-1][0] == 'body' and len(path) == 1:
                idx = path[-1][1]
            elif k in ('delitem', 'insert') and not path and op.get('field') == 'body':
                idx = op['idx']
            elif k in ('cut_slice', 'put_slice') and not path and op.get('field') == 'body':
                idx = op['start']
            if isinstance(idx, int) and 0 < idx <= len(tree.body) and tree.body[idx - 1].end_lineno - 1 in dang:
                out['behind_dangling_continuation_left_by_tail_delete'] = True
        if k in ('remove', 'cut'):
            par, (fld, i) = O.get_path(tree, path[:-1]), path[-1]
            j = None if i is None else i + 1
        elif k in ('delitem',):
            par, fld, i = O.get_path(tree, path), op['field'], op['idx']
            j = i + 1
        elif k in ('cut_slice', 'del_slice') or (k == 'put_slice' and (op.get('code') or [None])[0] is None):
            par, fld, i, j = O.get_path(tree, path), op['field'], op['start'], op['stop']
        else:
            return out
        lst = getattr(par, fld, None)
        if isinstance(par, (ast.Delete, ast.Import, ast.ImportFrom, ast.Global, ast.Nonlocal)) and isinstance(lst, list) and \
                isinstance(i, int) and i < 0:
            i += len(lst)
        if isinstance(par, (ast.Delete, ast.Import, ast.ImportFrom, ast.Global, ast.Nonlocal)) and isinstance(lst, list) and \
                isinstance(i, int) and 0 < i < len(lst) and (j is None or j in ('end',) or j >= len(lst)) and hasattr(lst[i], 'lineno'):
            first, prev = lst[i], lst[i - 1]
            rest = lines[par.end_lineno - 1][O.byte2char(lines[par.end_lineno - 1], par.end_col_offset):] + ''.join(lines[par.end_lineno:])
            if first.lineno > prev.end_lineno and lines[first.lineno - 2].rstrip().endswith('\\') and not rest.strip():
                out['tail_on_continuation_line_at_eof'] = True
    except Exception:  # noqa: BLE001  (description only)
        pass
    return out


def run_shard(desc, tier, res):
    import fst
    src0 = PROGRAMS[desc['prog']] if 'uneven' not in desc else UNEVEN_TARGETS[desc['uneven']]
    alphas = ALPHA[tier] if 'uneven' not in desc else [UNEVEN]
    if desc.get('seqextra'):
        alphas = [SEQEXTRA]
    if desc['depth'] == 3:
        alphas = [ALPHA['quick'][1], ALPHA['quick'][1], ALPHA['thorough'][2]]
    if desc.get('closure'):
        alphas = [SHRINK] * desc['depth']
    if desc.get('reduced_first'):
        alphas = [dict(nk=1, nks=1, forms=('src',), opts=({}, {'trivia': False}), lc_texts=('a much longer comment', None)),
                  ALPHA['quick'][1]]

    def on_state(root, pre, hist, cid, c2):
        res.traces += 1
        bad = live_vs_parse(root, 'Module')
        if bad and hist[-1]['op'] == 'unpar' and not _pars_redundant(fst, pre[2], hist[-1]['path'], hist[-1].get('node')):
            # unpar() removes what it is told to, "no higher level parsability validation": parentheses that the source needs
            # (line structure, precedence, 'return (yield)', '(x): int') are the caller's responsibility
            res.outcomes['unpar-of-needed-parentheses-not-judged'] += 1
            return False
        if bad:
            res.fail(cid, 'C01:source-does-not-parse' if bad.startswith('source does not parse') else 'C01:live-tree-differs-from-parse',
                     f'start={src0!r}\npre={pre[2]!r}\n{bad}',
                     {'op': hist[-1]['op'], 'prog': desc['prog'], **describe_request(pre[2], hist[-1])}, {'src': src0, 'hist': hist},
                     E.render(src0, hist))
            return False
        if c2[2] != pre[2]:
            res.nontriv(c2[2], c2[3])
        res.sample({'start': src0, 'history': [E.op_id(o) for o in hist], 'result': c2[2]})

    # histories of length >= 2 run with every cacheable query asked before each edit (a stale cached extent then shows up as
    # a wrong splice); depth-1 shards run without any query
    X.bfs(fst, src0, desc['depth'], alphas, tuple(desc['part']), res, on_state, cid_prefix=f"C01/p{desc['prog']}/" if 'uneven' not in desc else f"C01/uneven{desc['uneven']}/",
          warm=desc['depth'] >= 2)
    if desc.get('closure'):
        res.extra['closures_explored'] = 1
        res.extra['closures_complete(fixpoint reached)'] = int(X.bfs.frontier_left == 0)
        res.extra['closure_history_length_max'] = desc['depth']


def replay(rep, res):
    import fst
    root = fst.FST(rep['src'], 'exec')
    for op in rep['hist']:
        print('apply', E.op_id(op))
        E.apply(fst, root, op)
        print('  ->', repr(root.src))
    bad = live_vs_parse(root, 'Module')
    if bad:
        res.fail('replay', 'C01:source-does-not-parse' if bad.startswith('source does not parse') else 'C01:live-tree-differs-from-parse', bad)
