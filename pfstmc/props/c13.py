"""C13 - reconcile() returns a valid tree that equals the externally edited AST.

bfs over pure-AST mutation histories after mark(): the driver mutates root.a directly (replace by new node / by a node of
the same tree / by a node of another FST tree, insert / delete / reverse / duplicate / swap list elements, change
identifiers, constants, operators), depth <= 2, then reconcile(); optionally a second mark/mutate/reconcile round."""
from __future__ import annotations

import ast

from .. import oracle as O
from ..core import CaseTimeout, deadline
from ..fstnav import live_vs_parse
from ..programs import PROGRAMS

ID = 'C13'
LEVEL = 'model_checking'
TECHNIQUE = ('explicit-state bfs over pure-AST mutation histories (states de-duplicated on the dump of the edited AST) executed on '
             'the real mark()/reconcile(), every result judged by CPython (unparse->parse of the edited AST) and C01')
LEVEL_TEXT = ('every mutation of the alphabet at every position of 54 programs (depth 1; mutations incl. wrapping a statement into a new block and hoisting the body of a block), every pair of mutations (depth 2) on 12 programs '
              'and a second mark/mutate/reconcile round are executed on the real code; results are compared structurally with the '
              'edited AST and untouched statements are checked byte for byte')
LEVEL_NOTE = ('trusted: CPython ast.unparse/parse as the normal form of the edited AST; a statement counts as untouched only if no '
              'mutation path passes through it and it was not moved, duplicated or re-indexed')
RULE = ('bfs: state = dump of the edited AST (+ which foreign/new nodes); transitions = mutations applied; non-trivial = distinct '
        'edited ASTs that differ from the marked tree and reconcile successfully; traces = reconcile results compared')
ASSUMPTIONS = ['mutations keep the AST valid Python (Dict keys/values in lock-step, no empty required lists); invalid results of '
               'unparse->parse are skipped']
BOUNDS = {'quick': '44 programs depth 1 (all positions x 15 mutation kinds incl. every primitive field, default and non-default ambient options); depth 2 on 12 programs; second round on 12 programs',
          'thorough': '30 programs depth 1; depth 2 on 16; depth 3 on 3; second round everywhere'}

PROGRAMS = list(PROGRAMS) + [  # primitives in tight layouts: literals touching keywords / dots, names containing 'as', relative imports
    "x = not'b'\ny = 'a'.b\nz = 1 if'a'else 2\nw = ['c',-1]",
    "import asab as a, fromm\nfrom .a.b import c as d\nfrom .. import e\nfrom ...f import (g as h)",
    "def isnot(a, inb=1, *args, **kw): pass\nclass Cas(B): pass\ntry: pass\nexcept E as e: pass\nglobal_ = f(k=1, **kk)",
    "match s:\n case {**rest}: pass\n case [*star] if star: pass\n case p.q as r: pass\n case None: pass",
    # flags kept in primitive fields: async comprehensions, annotated targets with and without parentheses, u-prefixed strings
    "async def f():\n    return [x async for x in y if x], {k: v for k, v in z async for w in k}\n(a): int = 1\nb: str\n(c.d): e = u'text'\ns = 'plain', u'kind'",
    # string statements over several lines that are no docstrings (inside blocks that are no scopes): their value follows the indentation
    "def f(a):\n    if a:\n        \'\'\'not a\n        docstring\'\'\'\n        x = 1\n    for i in a:\n        \"\"\"s\n  t\"\"\"\n    return x\nwhile w:\n    \'l1 \\\n    l2\'\n    break",
]
N_SHARED13 = len(PROGRAMS) - 6
PROG_IDX = tuple(range(0, 40)) + (50, 51, 54, 55, 56, 57, 58, 59) + tuple(range(N_SHARED13, N_SHARED13 + 6))
PROG_IDX_T = PROG_IDX
D2 = (0, 1, 3, 7, 10, 11, 15, 16, 20, 22, 23, 28)


def new_expr(k):
    return [ast.Name(id='NEW', ctx=ast.Load()),
            ast.BinOp(left=ast.Name(id='p', ctx=ast.Load()), op=ast.Add(), right=ast.Constant(value=1)),
            ast.Call(func=ast.Name(id='g', ctx=ast.Load()), args=[], keywords=[]),
            ast.Lambda(args=ast.arguments(posonlyargs=[], args=[], kwonlyargs=[], kw_defaults=[], defaults=[]),
                       body=ast.Constant(value=0))][k]


def new_stmt(k):
    return [ast.Expr(value=ast.Name(id='ins', ctx=ast.Load())),
            ast.Assign(targets=[ast.Name(id='t', ctx=ast.Store())], value=ast.Constant(value=3), lineno=0),
            ast.If(test=ast.Name(id='c', ctx=ast.Load()), body=[ast.Pass()], orelse=[])][k]


def foreign_expr(fst):
    return fst.FST('zz  +  (1)', 'exec').a.body[0].value


def foreign_stmt(fst):
    return fst.FST('fs = [1,\n      2]  # foreign', 'exec').a.body[0]


def enumerate_muts(tree):
    """Mutation descriptors for the current AST (paths computed on a plain traversal of the live AST objects)."""
    out = []
    for path, parent, field, idx, child in O.iter_slots(tree, ('expr',)):
        ctx = getattr(child, 'ctx', None)
        if ctx is not None and not isinstance(ctx, ast.Load):
            if isinstance(child, ast.Name):
                out.append(('rename', path))
            continue
        if isinstance(parent, (ast.JoinedStr, ast.FormattedValue, ast.MatchValue, ast.MatchMapping, ast.keyword)) and \
                isinstance(parent, (ast.JoinedStr, ast.FormattedValue, ast.MatchValue, ast.MatchMapping)):
            continue
        if isinstance(child, (ast.Starred, ast.Slice)) or (isinstance(parent, ast.Subscript) and field == 'slice'):
            continue
        for k in range(4):
            out.append(('new-expr', path, k))
        out.append(('foreign-expr', path))
        out.append(('dup-expr', path))
        if isinstance(child, ast.Name):
            out.append(('rename', path))
        if isinstance(child, ast.Constant) and isinstance(child.value, (int, str)) and not isinstance(child.value, bool):
            out.append(('const', path))
        if isinstance(child, ast.BinOp):
            out.append(('op', path))
    for path, node in O.iter_nodes(tree):  # primitive fields: identifiers, numbers, constants changed in place
        ncls = node.__class__.__name__
        in_f = any(isinstance(O.get_path(tree, path[:k]), (ast.JoinedStr, ast.FormattedValue)) for k in range(len(path)))
        for field, typ, card in O.GRAMMAR.get(ncls, ()):
            if typ == 'identifier' and card != '*' and (ncls, field) != ('Name', 'id'):
                cur = getattr(node, field)
                if cur is not None and cur != '*':
                    out.append(('prim', path, field, 0))
                if card == '?' and (ncls, field) in (('alias', 'asname'), ('ExceptHandler', 'name')):
                    out.append(('prim', path, field, 1))
            elif (ncls, field) == ('ImportFrom', 'level'):
                out += [('prim', path, field, 0), ('prim', path, field, 1)]
            elif (ncls, field) == ('Constant', 'value') and not in_f and not isinstance(node.value, (bytes, type(...))):
                out += [('prim', path, field, k) for k in range(4)]
            elif (ncls, field) in (('comprehension', 'is_async'), ('AnnAssign', 'simple')) or \
                    ((ncls, field) == ('Constant', 'kind') and isinstance(node.value, str) and not in_f):
                out.append(('prim', path, field, 0))  # flags: 'async for' <-> 'for', '(x): int' <-> 'x: int', u'...' <-> '...'
    for path, node in O.iter_nodes(tree):
        for field, typ, card in O.GRAMMAR.get(node.__class__.__name__, ()):
            if card != '*':
                continue
            lst = getattr(node, field)
            n = len(lst)
            if typ == 'stmt':
                for i in range(n + 1):
                    for k in range(3):
                        out.append(('ins-stmt', path, field, i, k))
                    out.append(('ins-foreign-stmt', path, field, i))
                if n > 1:
                    for i in range(n):
                        out.append(('del', path, field, i))
                    out.append(('reverse', path, field))
                    for i in range(n - 1):
                        out.append(('swap', path, field, i))
                for i in range(n):
                    out.append(('dup', path, field, i))
                    out.append(('wrap-if', path, field, i))  # the statement (its own nodes) one level deeper inside a new block
                    if isinstance(lst[i], (ast.If, ast.For, ast.While, ast.With)) and not getattr(lst[i], 'orelse', None):
                        out.append(('hoist', path, field, i))  # the body of a block in place of the block: one level up
            elif typ == 'expr' and field in ('decorator_list', 'bases'):  # list fields reconcile has no element-wise handling for
                for i in range(n + 1):
                    out.append(('ins-expr', path, field, i))
                for i in range(n):
                    out.append(('del', path, field, i))
            elif typ == 'expr' and node.__class__.__name__ in ('List', 'Tuple', 'Set', 'Call') and field in ('elts', 'args') \
                    and isinstance(getattr(node, 'ctx', ast.Load()), ast.Load):
                if any(isinstance(e, ast.Starred) for e in lst):
                    continue
                for i in range(n + 1):
                    out.append(('ins-expr', path, field, i))
                if n > 1:
                    for i in range(n):
                        out.append(('del', path, field, i))
                    out.append(('reverse', path, field))
                for i in range(n):
                    out.append(('dup', path, field, i))
    return out


def apply_mut(fst, tree, m):
    """Mutate the pure AST in place; returns the set of path prefixes touched."""
    kind = m[0]
    if kind in ('new-expr', 'foreign-expr', 'dup-expr', 'rename', 'const', 'op'):
        path = m[1]
        node = O.get_path(tree, path)
        if kind == 'new-expr':
            O.set_path(tree, path, new_expr(m[2]))
        elif kind == 'foreign-expr':
            O.set_path(tree, path, foreign_expr(fst))
        elif kind == 'dup-expr':  # replace by (the same object as) the first other Load expression of the tree
            for p2, _, _, _, c2 in O.iter_slots(tree, ('expr',)):
                if c2 is not node and isinstance(getattr(c2, 'ctx', ast.Load()), ast.Load) and not isinstance(c2, (ast.Starred, ast.Slice)) \
                        and not any(c2 is a for a in ast.walk(node)) and not any(node is a for a in ast.walk(c2)):
                    O.set_path(tree, path, c2)
                    break
        elif kind == 'rename':
            node.id = node.id + '_r'
        elif kind == 'const':
            node.value = node.value + (1 if isinstance(node.value, int) else 'x')
        elif kind == 'op':
            node.op = ast.Sub() if not isinstance(node.op, ast.Sub) else ast.Mult()
        # an earlier dup-expr / dup may have put the same object into several places: an in-place change touches all of them
        touched = {tuple(path)}
        if kind in ('rename', 'const', 'op'):
            for p2, n2 in O.iter_nodes(tree):
                if n2 is node:
                    touched.add(tuple(p2))
        return touched
    if kind == 'prim':
        path, field, k = m[1], m[2], m[3]
        node = O.get_path(tree, path)
        cur = getattr(node, field)
        if field == 'level':
            new = (0 if node.module else 1) if k == 0 else (cur or 0) + 2
        elif field in ('is_async', 'simple'):
            new = 0 if cur else 1
        elif field == 'kind':
            new = None if cur else 'u'
        elif field == 'value':
            new = [True, None, 7, 'zz'][k]
            if new == cur and type(new) is type(cur):
                new = 8.5
        elif k == 1:
            new = None if cur is not None else 'nn'
        else:
            new = (cur or '') + '_p' if cur != 'zz' else 'yy'
        setattr(node, field, new)
        touched = {tuple(path)}
        for p2, n2 in O.iter_nodes(tree):
            if n2 is node:
                touched.add(tuple(p2))
        return touched
    path, field = m[1], m[2]
    lst = getattr(O.get_path(tree, path), field)
    if kind == 'ins-stmt':
        lst.insert(m[3], new_stmt(m[4]))
    elif kind == 'ins-foreign-stmt':
        lst.insert(m[3], foreign_stmt(fst))
    elif kind == 'ins-expr':
        lst.insert(m[3], ast.Name(id='ie', ctx=ast.Load()))
    elif kind == 'del':
        del lst[m[3]]
    elif kind == 'reverse':
        lst.reverse()
    elif kind == 'swap':
        lst[m[3]], lst[m[3] + 1] = lst[m[3] + 1], lst[m[3]]
    elif kind == 'dup':
        lst.insert(m[3] + 1, lst[m[3]])
    elif kind == 'wrap-if':
        lst[m[3]] = ast.If(test=ast.Name(id='wr', ctx=ast.Load()), body=[lst[m[3]]], orelse=[])
    elif kind == 'hoist':
        lst[m[3]:m[3] + 1] = list(lst[m[3]].body)
    return {tuple(path) + ((field, '*'),)}


def mutates_foreign(hist):
    """Does a later mutation reach inside a node that an earlier mutation took from another FST tree?"""
    locs = []
    for m in hist:
        path = tuple(m[1])
        for loc in locs:
            if path[:len(loc)] == loc:
                return True
        if m[0] == 'foreign-expr':
            locs.append(path)
        elif m[0] == 'ins-foreign-stmt':
            locs.append(path + ((m[2], m[3]),))
    return False


def mut_id(m):
    return m[0] + ':' + O.path_str(m[1]) + ''.join(f'/{x}' for x in m[2:])


AMBIENT = {'pars': False, 'trivia': False, 'pep8space': False, 'norm': False}


def _dump_docstr_flat(tree):
    import copy
    tree = copy.deepcopy(tree)
    for n in ast.walk(tree):
        b = getattr(n, 'body', None)
        if isinstance(n, (ast.Module, ast.FunctionDef, ast.AsyncFunctionDef, ast.ClassDef)) and b and isinstance(b[0], ast.Expr) and \
                isinstance(b[0].value, ast.Constant) and isinstance(b[0].value.value, str):
            b[0].value.value = '\n'.join(l.strip() for l in b[0].value.value.split('\n'))
    return O.dump(tree)


def run_history(fst, pi, hist, res, second=None, ambient=False):
    if ambient:  # the caller's ambient option defaults must not leak into reconcile()
        with fst.FST.options(**AMBIENT):
            return _run_history(fst, pi, hist, res, second, '/ambient')
    return _run_history(fst, pi, hist, res, second, '')


def _run_history(fst, pi, hist, res, second, tag):
    src = PROGRAMS[pi]
    cid = f'C13/p{pi}/' + '|'.join(mut_id(m) for m in hist) + (('||' + mut_id(second)) if second else '') + tag
    rep = {'prog': pi, 'hist': [list(m) for m in hist], 'second': list(second) if second else None}
    params = {'kinds': ','.join(m[0] for m in hist), 'mutates_foreign': mutates_foreign(hist)}
    root = fst.FST(src, 'exec')
    root.mark()
    marked = ast.parse(src)
    touched = set()
    res.evals += 1
    try:
        for m in hist:
            touched |= apply_mut(fst, root.a, m)
            res.transitions += 1
    except Exception as e:  # noqa: BLE001  driver could not apply (shape changed): not enabled
        res.outcomes['mutation-not-enabled'] += 1
        return None
    try:
        want = ast.parse(ast.unparse(root.a))
    except Exception:  # noqa: BLE001
        res.outcomes['edited-ast-not-valid-python'] += 1
        return None
    if not O.compiles(ast.unparse(want)):
        res.outcomes['edited-ast-not-compilable'] += 1
        return None
    wd = O.dump(want)
    res.state(pi, wd)
    try:
        with deadline(20):
            out = root.reconcile()
    except CaseTimeout:
        res.fail(cid, 'hang', f'src={src!r}', params, rep)
        return None
    except Exception as e:  # noqa: BLE001
        res.fail(cid, 'reconcile-raised:' + e.__class__.__name__, f'src={src!r}\nedited={ast.unparse(want)!r}\n{e!r}',
                 params, rep)
        return None
    res.traces += 1
    bad = live_vs_parse(out, 'Module')
    if bad:
        res.fail(cid, 'C01-after-reconcile', f'src={src!r}\n{bad}', params, rep)
        return None
    got = O.dump(ast.parse(out.src))
    if got != wd:
        hl = sorted({m[2] for m in hist if m[0] in ('ins-expr', 'del') and len(m) > 2 and m[2] in ('decorator_list', 'bases')})
        if hl and _dump_docstr_flat(ast.parse(out.src)) == _dump_docstr_flat(want):
            # input side: the length of a decorator / base list changed (the definition is then put again from its AST, a known
            # finding) and the definition holds a docstring with continuation lines; the difference is only their indentation
            params = dict(params, header_list_length_changed=True, only_docstring_indentation_differs=True)
        res.fail(cid, 'result-differs-from-edited-ast',
                 f'src={src!r}\nresult={out.src!r}\nedited={ast.unparse(want)!r}\n' + O.first_diff(got, wd),
                 params, rep)
        return None
    if not hist and out.src != src:
        res.fail(cid, 'no-op-reconcile-changed-source', f'src={src!r}\nresult={out.src!r}', {}, rep)
        return None
    # untouched top-level statements keep their full lines (comments included)
    lines = src.split('\n')
    outsrc = out.src
    for i, st in enumerate(marked.body):
        p = (('body', i),)
        if any(t[:1] == p or t == (('body', '*'),) for t in touched):
            continue
        if i >= len(want.body) or O.dump(want.body[i]) != O.dump(st):
            continue  # changed after all: an object shared between statements (dup-expr / dup) was mutated in place
        a = st.decorator_list[0].lineno if getattr(st, 'decorator_list', None) else st.lineno
        alone = not any(o is not st and (o.lineno <= st.end_lineno and o.end_lineno >= a) for o in marked.body)
        if alone:  # full lines, trailing comment included
            seg = '\n'.join(lines[a - 1:st.end_lineno])
        else:  # shares a line with another statement (semicolons): its own extent
            seg = ast.get_source_segment(src, st)
        if seg not in outsrc:
            res.fail(cid, 'untouched-statement-text-changed',
                     f'src={src!r}\nresult={outsrc!r}\nstatement body[{i}] lines={seg!r}', params, rep)
            return None
    # the same for statements at any depth: a statement none of whose own nodes was touched (no mutation at or below it, none of
    # the lists it is an element of changed) keeps its lines even when the statement that contains it was edited elsewhere
    def _hit(t, P):
        """does the touched path t concern the statement at path P (t at / below P, or a list on the way to P changed)?"""
        for k, (f, i) in enumerate(t):
            if k >= len(P):
                return True  # t goes below P
            if f != P[k][0]:
                return False
            if i == '*':
                return True  # a list on the way to P (or P's own list) changed length / order
            if i != P[k][1]:
                return False
        return True  # t is a prefix of (or equal to) P: a container of P was replaced as a whole
    for P, st in O.iter_nodes(marked):
        if not isinstance(st, ast.stmt) or len(P) < 2:
            continue
        if any(_hit(t, P) for t in touched):
            continue
        try:
            w = O.get_path(want, P)
        except Exception:  # noqa: BLE001
            continue
        if O.dump(w) != O.dump(st):
            continue
        sibs = getattr(O.get_path(marked, P[:-1]), P[-1][0])
        a = st.decorator_list[0].lineno if getattr(st, 'decorator_list', None) else st.lineno
        if not isinstance(sibs, list) or any(o is not st and (o.lineno <= st.end_lineno and o.end_lineno >= a) for o in sibs):
            continue  # shares lines with a sibling
        if lines[a - 1][:O.byte2char(lines[a - 1], st.col_offset if not getattr(st, 'decorator_list', None) else st.decorator_list[0].col_offset - 1)].strip():
            continue  # something stands in front of it on its first line (the header of its block: 'if a: b', 'case 1: pass')
        seg = '\n'.join(lines[a - 1:st.end_lineno])
        if seg not in outsrc:
            res.fail(cid, 'untouched-nested-statement-text-changed',
                     f'src={src!r}\nresult={outsrc!r}\nstatement {O.path_str(P)} lines={seg!r}',
                     dict(params, nested_untouched=True, list_fields=','.join(sorted({m[2] for m in hist if m[0] in ('ins-expr', 'del') and len(m) > 2 and m[2] in ('decorator_list', 'bases')}))), rep)
            return None
    if wd != O.dump(marked):
        res.nontriv(pi, wd)
    res.outcomes['ok'] += 1
    if second is not None:
        out.mark()
        try:
            apply_mut(fst, out.a, second)
        except Exception:  # noqa: BLE001
            return wd
        try:
            want2 = ast.parse(ast.unparse(out.a))
        except Exception:  # noqa: BLE001
            return wd
        if not O.compiles(ast.unparse(want2)):
            return wd
        res.transitions += 1
        try:
            out2 = out.reconcile()
        except Exception as e:  # noqa: BLE001
            res.fail(cid, 'second-round-reconcile-raised:' + e.__class__.__name__, f'src={src!r}\nafter first={out.src!r}\n{e!r}',
                     {'kinds': second[0]}, rep)
            return wd
        res.traces += 1
        bad = live_vs_parse(out2, 'Module')
        if bad or O.dump(ast.parse(out2.src)) != O.dump(want2):
            res.fail(cid, 'second-round-result-differs', f'src={src!r}\nafter first={out.src!r}\nresult={out2.src!r}\n'
                     f'edited={ast.unparse(want2)!r}\n{bad or ""}', {'kinds': second[0]}, rep)
        else:
            res.outcomes['second-round-ok'] += 1
    return wd


def shards(tier):
    progs = PROG_IDX if tier == 'quick' else PROG_IDX_T
    out = [{'prog': i, 'depth': 1} for i in progs]
    d2 = D2 if tier == 'quick' else PROG_IDX
    for i in d2:
        for r in range(8):
            out.append({'prog': i, 'depth': 2, 'part': [r, 8]})
    for i in d2:
        out.append({'prog': i, 'depth': 'second'})
    return out


def run_shard(desc, tier, res):
    import fst
    pi = desc['prog']
    src = PROGRAMS[pi]
    muts = enumerate_muts(ast.parse(src))
    if desc['depth'] == 1:
        run_history(fst, pi, [], res)
        for m in muts:
            run_history(fst, pi, [m], res)
            run_history(fst, pi, [m], res, ambient=True)
        res.sample({'program': src, 'mutations': len(muts), 'example': mut_id(muts[0]) if muts else None})
    elif desc['depth'] == 2:
        r, M = desc['part']
        seen = set()
        for k, m1 in enumerate(muts):
            if k % M != r:
                continue
            # second-level mutations are enumerated on the AST as edited by m1 (through unparse->parse)
            root = fst.FST(src, 'exec')
            try:
                apply_mut(fst, root.a, m1)
                mid = ast.parse(ast.unparse(root.a))
            except Exception:  # noqa: BLE001
                continue
            for m2 in enumerate_muts(mid):
                if m2[0] in ('new-expr',) and m2[2] > 0:
                    continue
                if tier == 'quick' and m2[0] in ('foreign-expr', 'ins-foreign-stmt', 'const', 'op'):
                    continue
                wd = run_history(fst, pi, [m1, m2], res)
    else:
        for k, m1 in enumerate(muts):
            for m2 in muts[k % 7::7][:6]:
                run_history(fst, pi, [m1], res, second=m2)


def replay(rep, res):
    import fst
    hist = [tuple(tuple(x) if isinstance(x, list) else x for x in m) for m in rep['hist']]
    hist = [_fix(m) for m in rep['hist']]
    run_history(fst, rep['prog'], hist, res, second=_fix(rep['second']) if rep.get('second') else None)


def _fix(m):
    m = list(m)
    m[1] = tuple(tuple(x) for x in m[1])
    return tuple(m)
