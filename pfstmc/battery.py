"""Read-only query battery over a whole tree, rendered to plain data keyed by node path (C02)."""
from __future__ import annotations

import ast

from . import oracle as O

GROUPS = ('loc', 'pars', 'src', 'nav', 'views', 'preds', 'docstr')
VIRTUAL = ('_all', '_args', '_bases', '_body', '_attrs')
_PROPS = None


def _props(FST):
    global _PROPS
    if _PROPS is None:
        import ast as _ast
        _PROPS = sorted(n for n in dir(FST) if n.startswith('is_') and isinstance(getattr(FST, n, None), property)
                        and not hasattr(_ast, n[3:]))  # category predicates; is_<Class> is checked for the own class
    return _PROPS


def paths(root):
    """[(path string, fst node)] for every node reachable through the grammar from root.a."""
    out = []
    for p, a in O.iter_nodes(root.a):
        f = getattr(a, 'f', None)
        out.append((O.path_str(p), f))
    return out


def _q(fn):
    try:
        return fn()
    except Exception as e:  # noqa: BLE001
        return ('EXC', e.__class__.__name__)


def battery(root, groups=GROUPS):
    FST = root.__class__
    plist = paths(root)
    ident = {id(f): p for p, f in plist if f is not None}

    def pid(f):
        if f is None:
            return None
        if not isinstance(f, FST):
            return ('?', repr(f))
        return ident.get(id(f), ('UNKNOWN-NODE', repr(f)))

    def tup(x):
        return tuple(x) if x is not None else None

    out = {}
    for p, f in plist:
        if f is None:
            out[p] = 'NO-FST'
            continue
        d = {}
        if 'loc' in groups:
            d['loc'] = _q(lambda: tup(f.loc))
            d['bloc'] = _q(lambda: tup(f.bloc))
            d['pos'] = _q(lambda: (f.lineno, f.col_offset, f.end_lineno, f.end_col_offset))
            d['lncol'] = _q(lambda: (f.ln, f.col, f.end_ln, f.end_col, f.bln, f.bcol, f.bend_ln, f.bend_col))
            d['own'] = _q(lambda: f.has_own_loc)
        if 'pars' in groups:
            d['pars'] = _q(lambda: (lambda r: None if r is None else (tuple(r), getattr(r, 'n', None)))(f.pars()))
            d['pars_ns'] = _q(lambda: (lambda r: None if r is None else (tuple(r), getattr(r, 'n', None)))(f.pars(shared=False)))
        if 'src' in groups:
            d['src'] = _q(lambda: f.src if f.loc is not None else None)
            d['own_src'] = _q(lambda: f.own_src() if f.loc is not None else None)
            d['own_src_nd'] = _q(lambda: f.own_src(docstr=False) if f.loc is not None else None)
        if 'nav' in groups:
            d['parent'] = pid(f.parent)
            d['pfield'] = _q(lambda: tuple(f.pfield) if f.pfield else None)
            d['is_root'] = f.is_root
            d['root'] = f.root is root
            for allv in (False, True, 'loc'):
                d[f'nav{allv}'] = _q(lambda: (pid(f.next(allv)), pid(f.prev(allv)), pid(f.first_child(allv)),
                                             pid(f.last_child(allv)), pid(f.step_fwd(allv)), pid(f.step_back(allv))))
            d['parent_stmt'] = _q(lambda: pid(f.parent_stmt()))
            d['parent_block'] = _q(lambda: pid(f.parent_block()))
            d['parent_scope'] = _q(lambda: pid(f.parent_scope()))
        if 'views' in groups:
            a = f.a
            for field, typ, card in O.GRAMMAR.get(a.__class__.__name__, ()):
                if card == '*' and typ in O.NODE_TYPES:
                    def view(field=field):
                        v = getattr(f, field)
                        return (len(v), tuple(pid(x) if isinstance(x, FST) else repr(x) for x in v))
                    d['view:' + field] = _q(view)
            for vf in VIRTUAL:
                def vview(vf=vf):
                    v = getattr(f, vf)
                    return (len(v), _q(lambda: tup(v.loc) if hasattr(v, 'loc') else None))
                r = _q(vview)
                if r != ('EXC', 'AttributeError') and r != ('EXC', 'ValueError'):
                    d['vview:' + vf] = r
        if 'preds' in groups:
            d['preds'] = tuple(n for n in _props(FST) if _q(lambda: getattr(f, n)) is True)
            d['is_own_class'] = _q(lambda: getattr(f, 'is_' + f.a.__class__.__name__, None))
            d['is_elif'] = _q(f.is_elif)
            d['is_partup'] = _q(f.is_parenthesized_tuple)
            d['is_delmseq'] = _q(f.is_delimited_matchseq)
            d['is_emptyargs'] = _q(f.is_empty_arguments)
            d['is_exstar'] = _q(f.is_except_star)
            d['is_parable'] = _q(f.is_parenthesizable)
        if 'docstr' in groups:
            d['has_docstr'] = _q(lambda: f.has_docstr)
            d['docstr'] = _q(f.get_docstr)
            if isinstance(f.a, ast.stmt):
                d['line_comment'] = _q(f.get_line_comment)
        out[p] = d
    return out


def diff(b1, b2, limit=6):
    out = []
    for p in sorted(set(b1) | set(b2)):
        x, y = b1.get(p), b2.get(p)
        if x == y:
            continue
        if not isinstance(x, dict) or not isinstance(y, dict):
            out.append(f'{p}: {x!r} != {y!r}')
        else:
            for k in sorted(set(x) | set(y)):
                if x.get(k) != y.get(k):
                    out.append(f'{p}.{k}: live={x.get(k)!r} fresh={y.get(k)!r}')
        if len(out) >= limit:
            break
    return out
