"""Read-only query battery over a whole tree, rendered to plain data keyed by node path (C02)."""
from __future__ import annotations

import ast

from . import oracle as O

GROUPS = ('loc', 'pars', 'src', 'nav', 'views', 'preds', 'docstr')
VIRTUAL = ('_all', '_args', '_bases', '_body', '_attrs')
_PROPS = None


def _props(FST):
    global _PROPS
    if _PROPS is None:
        import ast as _ast
        _PROPS = sorted(n for n in dir(FST) if n.startswith('is_') and isinstance(getattr(FST, n, None), property)
                        and not hasattr(_ast, n[3:]))  # category predicates; is_<Class> is checked for the own class
    return _PROPS


def paths(root):
    """[(path string, fst node)] for every node reachable through the grammar from root.a."""
    out = []
    for p, a in O.iter_nodes(root.a):
        f = getattr(a, 'f', None)
        out.append((O.path_str(p), f))
    return out


def _q(fn):
    try:
        return fn()
    except Exception as e:  # noqa: BLE001
        return ('EXC', e.__class__.__name__)


def battery(root, groups=GROUPS, reverse=False):
    """reverse=True asks the same questions in the opposite order (nodes and queries): answers must not depend on which
    read-only queries were made before."""
    FST = root.__class__
    plist = paths(root)
    ident = {id(f): p for p, f in plist if f is not None}

    def pid(f):
        if f is None:
            return None
        if not isinstance(f, FST):
            return ('?', repr(f))
        return ident.get(id(f), ('UNKNOWN-NODE', repr(f)))

    def tup(x):
        return tuple(x) if x is not None else None

    out = {}
    for p, f in (reversed(plist) if reverse else plist):
        if f is None:
            out[p] = 'NO-FST'
            continue
        d = {}
        qs = []
        if 'loc' in groups:
            qs.append(('loc', lambda: tup(f.loc)))
            qs.append(('bloc', lambda: tup(f.bloc)))
            qs.append(('pos', lambda: (f.lineno, f.col_offset, f.end_lineno, f.end_col_offset)))
            qs.append(('lncol', lambda: (f.ln, f.col, f.end_ln, f.end_col, f.bln, f.bcol, f.bend_ln, f.bend_col)))
            qs.append(('own', lambda: f.has_own_loc))
        if 'pars' in groups:
            qs.append(('pars', lambda: (lambda r: None if r is None else (tuple(r), getattr(r, 'n', None)))(f.pars())))
            qs.append(('pars_ns', lambda: (lambda r: None if r is None else (tuple(r), getattr(r, 'n', None)))(f.pars(shared=False))))
        if 'src' in groups:
            qs.append(('src', lambda: f.src if f.loc is not None else None))
            qs.append(('own_src', lambda: f.own_src() if f.loc is not None else None))
            qs.append(('own_src_nd', lambda: f.own_src(docstr=False) if f.loc is not None else None))
            qs.append(('own_src_st', lambda: f.own_src(docstr='strict') if f.loc is not None else None))
        if 'nav' in groups:
            qs.append(('parent', lambda: pid(f.parent)))
            qs.append(('pfield', lambda: tuple(f.pfield) if f.pfield else None))
            qs.append(('is_root', lambda: f.is_root))
            qs.append(('root', lambda: f.root is root))
            for allv in (False, True, 'loc'):
                qs.append((f'nav{allv}', lambda allv=allv: (pid(f.next(allv)), pid(f.prev(allv)), pid(f.first_child(allv)),
                                                            pid(f.last_child(allv)), pid(f.step_fwd(allv)), pid(f.step_back(allv)))))
            qs.append(('parent_stmt', lambda: pid(f.parent_stmt())))
            qs.append(('parent_block', lambda: pid(f.parent_block())))
            qs.append(('parent_scope', lambda: pid(f.parent_scope())))
            qs.append(('parent_more', lambda: (pid(f.parent_stmtlike()), pid(f.parent_named_scope()), pid(f.parent_non_expr()),
                                               pid(f.parent_pattern()), pid(f.parent_ftstr()), pid(f.last_header_child()),
                                               tuple(pid(x) for x in f.parents()), pid(f.repath()), f.is_alive)))
        if 'views' in groups:
            a = f.a
            for field, typ, card in O.GRAMMAR.get(a.__class__.__name__, ()):
                if card == '*' and typ in O.NODE_TYPES:
                    def view(field=field):
                        v = getattr(f, field)
                        return (len(v), tuple(pid(x) if isinstance(x, FST) else repr(x) for x in v))
                    qs.append(('view:' + field, view))
            for vf in VIRTUAL:
                def vview(vf=vf):
                    v = getattr(f, vf)
                    return (len(v), _q(lambda: tup(v.loc) if hasattr(v, 'loc') else None))
                qs.append(('vview:' + vf, vview))
        if 'preds' in groups:
            qs.append(('preds', lambda: tuple(n for n in _props(FST) if _q(lambda: getattr(f, n)) is True)))
            qs.append(('is_own_class', lambda: getattr(f, 'is_' + f.a.__class__.__name__, None)))
            qs.append(('is_elif', f.is_elif))
            qs.append(('is_partup', f.is_parenthesized_tuple))
            qs.append(('is_delmseq', f.is_delimited_matchseq))
            qs.append(('is_emptyargs', f.is_empty_arguments))
            qs.append(('is_exstar', f.is_except_star))
            qs.append(('is_parable', f.is_parenthesizable))
        if 'docstr' in groups:
            qs.append(('has_docstr', lambda: f.has_docstr))
            qs.append(('docstr', f.get_docstr))
            if isinstance(f.a, ast.stmt):
                qs.append(('line_comment', f.get_line_comment))
        for k, fn in (reversed(qs) if reverse else qs):
            r = _q(fn)
            if k.startswith('vview:') and r in (('EXC', 'AttributeError'), ('EXC', 'ValueError')):
                continue
            d[k] = r
        out[p] = d
    return out


def diff(b1, b2, limit=6):
    out = []
    for p in sorted(set(b1) | set(b2)):
        x, y = b1.get(p), b2.get(p)
        if x == y:
            continue
        if not isinstance(x, dict) or not isinstance(y, dict):
            out.append(f'{p}: {x!r} != {y!r}')
        else:
            for k in sorted(set(x) | set(y)):
                if ('EXC', 'SystemError') in (x.get(k), y.get(k)):
                    continue  # CPython 3.12.1's tokenizer fails on some nested f-strings (SystemError out of the C tokenizer): not an answer of pfst
                if x.get(k) != y.get(k):
                    out.append(f'{p}.{k}: live={x.get(k)!r} fresh={y.get(k)!r}')
        if len(out) >= limit:
            break
    return out
