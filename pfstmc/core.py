"""Runner: shards -> worker pool -> aggregation -> known-finding matching -> evidence / replay files / verdict lines.

Nothing in here decides a property; property modules (pfstmc.props.cXX) provide
    ID, LEVEL, RULE, ASSUMPTIONS, BOUNDS[tier]
    shards(tier)                -> list of json-able shard descriptors (deterministic, simplest first)
    run_shard(desc, tier, res)  -> explores the shard exhaustively, records into `res`
    replay(rep, res)            -> re-runs one recorded failing case
"""
from __future__ import annotations

import argparse
import hashlib
import importlib
import json
import multiprocessing as mp
import os
import random
import signal
import sys
import time
import traceback
from collections import Counter
from contextlib import contextmanager

VERIF = os.path.dirname(os.path.dirname(os.path.abspath(__file__)))


def h64(*parts) -> int:
    m = hashlib.blake2b(digest_size=8)
    for p in parts:
        m.update(repr(p).encode('utf8', 'surrogatepass'))
        m.update(b'\0')
    return int.from_bytes(m.digest(), 'big')


class CaseTimeout(BaseException):
    pass


def _alarm(signum, frame):
    raise CaseTimeout()


@contextmanager
def deadline(seconds: float):
    """Per-case horizon: an execution that does not finish is reported, never waited for.

    The horizon is measured in CPU time of this process (ITIMER_VIRTUAL), so a loaded machine cannot turn a slow but
    terminating execution into an alarm; a wall-clock timer 30 times as long backs it up for executions that block
    without using the CPU."""
    old_v = signal.signal(signal.SIGVTALRM, _alarm)
    old_r = signal.signal(signal.SIGALRM, _alarm)
    signal.setitimer(signal.ITIMER_VIRTUAL, seconds)
    signal.setitimer(signal.ITIMER_REAL, seconds * 30)
    try:
        yield
    finally:
        signal.setitimer(signal.ITIMER_VIRTUAL, 0)
        signal.setitimer(signal.ITIMER_REAL, 0)
        signal.signal(signal.SIGVTALRM, old_v)
        signal.signal(signal.SIGALRM, old_r)


class Res:
    """What one shard (or the whole run) covered."""

    MAX_FAILS_KEPT = 4000
    MAX_KEPT_PER_SYMPTOM = 400

    def __init__(self):
        self.evals = 0            # executions run
        self.transitions = 0      # operations applied to real objects
        self.traces = 0           # executions compared with a reference model / independent judge
        self.states = set()       # 64-bit hashes of distinct canonical states seen (start + result states)
        self.nontrivial = set()   # hashes of distinct non-trivial cases (rule in the property module)
        self.fails = []           # dicts: case, symptom, detail, params, replay
        self.nfails = 0
        self.kept_by_symptom = Counter()
        self.fail_index = {}      # case -> (symptom, params) for ALL failing cases (details only for the first MAX_FAILS_KEPT)
        self.samples = []
        self.outcomes = Counter()  # free-form outcome classes, for reading (vacuity detection)
        self.extra = {}

    def state(self, *parts):
        self.states.add(h64(*parts))

    def nontriv(self, *parts):
        self.nontrivial.add(h64(*parts))

    def fail(self, case, symptom, detail='', params=None, replay=None, script=None):
        self.nfails += 1
        self.fail_index[case] = (symptom, params or {})
        self.kept_by_symptom[symptom] += 1
        if len(self.fails) < self.MAX_FAILS_KEPT and self.kept_by_symptom[symptom] <= self.MAX_KEPT_PER_SYMPTOM:  # a flood of one (known) symptom must not crowd out the details of another
            self.fails.append({'case': case, 'symptom': symptom, 'detail': str(detail)[:2000],
                               'params': params or {}, 'replay': replay, 'script': script})

    def sample(self, s, cap=5):
        if len(self.samples) < cap:
            self.samples.append(s)

    def merge(self, o: 'Res'):
        self.evals += o.evals
        self.transitions += o.transitions
        self.traces += o.traces
        self.states |= o.states
        self.nontrivial |= o.nontrivial
        for fl in o.fails:
            self.kept_by_symptom[fl['symptom']] += 1
            if len(self.fails) < self.MAX_FAILS_KEPT and self.kept_by_symptom[fl['symptom']] <= self.MAX_KEPT_PER_SYMPTOM:
                self.fails.append(fl)
        self.nfails += o.nfails
        self.fail_index.update(o.fail_index)
        for s in o.samples:
            self.sample(s)
        self.outcomes.update(o.outcomes)
        for k, v in o.extra.items():
            if isinstance(v, (int, float)) and k.endswith('_max'):
                self.extra[k] = max(self.extra.get(k, 0), v)
            elif isinstance(v, (int, float)):
                self.extra[k] = self.extra.get(k, 0) + v
            elif isinstance(v, list):
                self.extra.setdefault(k, [])
                for x in v:
                    if x not in self.extra[k] and len(self.extra[k]) < 50:
                        self.extra[k].append(x)
            elif isinstance(v, dict):
                d = self.extra.setdefault(k, {})
                for kk, vv in v.items():
                    d[kk] = d.get(kk, 0) + vv if isinstance(vv, (int, float)) else vv
            else:
                self.extra[k] = v


# ----------------------------------------------------------------------------------------------------------------------

_MOD = None
_SHARDS = None
_TIER = None


def setup_repo(repo: str):
    src = os.path.join(os.path.abspath(repo), 'src')
    if not os.path.isdir(os.path.join(src, 'fst')):
        raise SystemExit(f'no fst package under {src}')
    sys.path.insert(0, src)
    os.environ['PFSTMC_REPO'] = os.path.abspath(repo)
    import fst
    if not os.path.abspath(fst.__file__).startswith(src):
        raise SystemExit(f'fst imported from {fst.__file__}, expected under {src}')
    return fst


def _work(i):
    res = Res()
    t0 = time.time()
    try:
        _MOD.run_shard(_SHARDS[i], _TIER, res)
    except CaseTimeout:
        res.fail(f'{_MOD.ID}/shard{i}', 'harness-timeout-outside-case', repr(_SHARDS[i])[:300])
    except BaseException:  # a harness error must never look like silence
        res.fail(f'{_MOD.ID}/shard{i}', 'harness-error', traceback.format_exc()[-1800:])
    res.extra['shard_s'] = time.time() - t0
    return i, res


def _init_worker():
    signal.signal(signal.SIGINT, signal.SIG_IGN)
    import gc
    gc.freeze()


def load_findings():
    path = os.path.join(VERIF, 'known_findings.json')
    if not os.path.exists(path):
        return []
    with open(path) as f:
        fs = json.load(f)['findings']
    for k in fs:
        if k.get('cases_file'):
            with open(os.path.join(VERIF, k['cases_file'])) as f:
                k['case_symptoms'] = json.load(f)  # {case id: exact symptom}
    return fs


def match_finding(f, findings, pid):
    """A failing case is attributed to an OPEN finding only if (exact case id or input-parameter selector) and the
    exact symptom are listed."""
    for k in findings:
        if k.get('property') != pid or k.get('status') != 'open':
            continue
        if k.get('symptom') is not None and k['symptom'] != f['symptom']:
            continue
        if 'symptoms' in k and f['symptom'] not in k['symptoms']:
            continue
        if 'cases' in k and f['case'] in k['cases']:
            return k
        if 'case_symptoms' in k and k['case_symptoms'].get(f['case']) == f['symptom']:
            return k
        sel = k.get('selector')
        if sel and all(f['params'].get(a) == b for a, b in sel.items()):
            return k
    return None


def main(argv):
    ap = argparse.ArgumentParser()
    ap.add_argument('prop')
    ap.add_argument('--tier', default=os.environ.get('VERIF_TIER') or 'quick', choices=['quick', 'thorough'])
    ap.add_argument('--repo', default='/repo')
    ap.add_argument('--replay')
    ap.add_argument('--jobs', type=int, default=int(os.environ.get('PFSTMC_JOBS', '0')) or min(16, os.cpu_count() or 1))
    ap.add_argument('--only', help='substring filter on shard descriptors (debugging; marks run non-exhaustive)')
    ap.add_argument('--no-evidence', action='store_true')
    ap.add_argument('--dump-fails', help='write {case: symptom} of every failing case (triage / recording findings)')
    ap.add_argument('--list-fails', action='store_true', help='print every failing case id (triage)')
    args = ap.parse_args(argv)

    global _MOD, _SHARDS, _TIER
    pid = args.prop.upper()
    seed = int(os.environ.get('VERIF_SEED', '0') or 0)
    t0 = time.time()
    setup_repo(args.repo)
    _MOD = mod = importlib.import_module(f'pfstmc.props.{pid.lower()}')
    _TIER = tier = args.tier

    if args.replay:
        with open(args.replay) as f:
            rep = json.load(f)
        res = Res()
        mod.replay(rep['replay'], res)
        for fl in res.fails:
            print(f"REPLAY-FAIL case={fl['case']} symptom={fl['symptom']}\n{fl['detail']}")
        print(f'replay: {res.nfails} failing check(s)')
        return 1 if res.nfails else 0

    shards = mod.shards(tier)
    if args.only:
        shards = [s for s in shards if args.only in json.dumps(s)]
    _SHARDS = shards
    order = list(range(len(shards)))
    random.Random(seed).shuffle(order)  # the seed only rotates the order shards are handed out; all are completed

    total = Res()
    budget = getattr(mod, 'HARD_TIMEOUT', {}).get(tier, 3600 if tier == 'quick' else 6 * 3600)
    done = 0
    capped = False
    if args.jobs <= 1 or len(shards) <= 1:
        for i in order:
            total.merge(_work(i)[1])
            done += 1
    else:
        ctx = mp.get_context('fork')
        with ctx.Pool(min(args.jobs, len(shards)), initializer=_init_worker) as pool:
            it = pool.imap_unordered(_work, order, chunksize=1)
            while True:
                try:
                    left = budget - (time.time() - t0)
                    if left <= 0:
                        raise mp.TimeoutError()
                    _, r = it.next(timeout=left)
                except StopIteration:
                    break
                except mp.TimeoutError:
                    capped = True
                    pool.terminate()
                    break
                total.merge(r)
                done += 1

    if hasattr(mod, 'finish'):
        mod.finish(tier, total)

    # ---- verdict ------------------------------------------------------------------------------------------------
    findings = load_findings()
    new, known = [], {}
    detailed = {fl['case']: fl for fl in total.fails}
    for case, (sym, params) in total.fail_index.items():
        fl = detailed.get(case) or {'case': case, 'symptom': sym, 'detail': '(detail not kept: beyond the first '
                                    f'{Res.MAX_FAILS_KEPT} failures)', 'params': params, 'replay': None, 'script': None}
        k = match_finding(fl, findings, pid)
        if k is None:
            new.append(fl)
        else:
            known.setdefault(k['id'], [k, 0])[1] += 1
    new.sort(key=lambda fl: (fl['replay'] is None, len(fl['case'])))  # shortest replayable counter-example first
    if args.dump_fails:
        with open(args.dump_fails, 'w') as f:
            json.dump({c: s for c, (s, _) in sorted(total.fail_index.items())}, f, indent=0)
    if capped:
        print(f'NOTE: hard time cap {budget}s hit after {done}/{len(shards)} shards; run is NOT exhaustive')

    for kid, (k, n) in sorted(known.items()):
        print(f"KNOWN-FINDING: property={pid} {kid} {k.get('what', '')} [{n} case(s) this run]")

    rdir = os.path.join(VERIF, 'replays')
    vio_paths = []
    if new:
        os.makedirs(rdir, exist_ok=True)
        for n, fl in enumerate(new[:25]):
            path = os.path.join(rdir, f'{pid}-{n}.json')
            with open(path, 'w') as f:
                json.dump({'property': pid, 'case': fl['case'], 'symptom': fl['symptom'], 'detail': fl['detail'],
                           'params': fl['params'], 'replay': fl['replay'], 'repo': args.repo, 'tier': tier}, f, indent=1)
            if fl.get('script'):
                with open(os.path.join(rdir, f'{pid}-{n}.py'), 'w') as f:
                    f.write(fl['script'])
            vio_paths.append(path)
            print(f'VIOLATION property={pid} replay={path}')
            print(f"  case={fl['case']} symptom={fl['symptom']}")
            for line in fl['detail'].splitlines()[:12]:
                print('    ' + line)
        if len(new) > 25:
            print(f'  ... and {len(new) - 25} more new failing cases')
        syms = Counter(fl['symptom'] for fl in new)
        print('  new failures by symptom:', dict(syms.most_common(12)))
    if args.list_fails:
        for fl in total.fails:
            print('FAIL', fl['case'], '|', fl['symptom'], '|', fl['detail'].splitlines()[0] if fl['detail'] else '')

    wall = time.time() - t0
    exhaustive = (not capped) and not args.only and done == len(shards)
    cov = {
        'states': len(total.states),
        'transitions': total.transitions,
        'traces_validated_against_impl': total.traces,
        'evaluations': total.evals,
        'distinct_nontrivial': len(total.nontrivial),
        'rule': mod.RULE,
        'samples': total.samples[:5] or ['(no sample recorded)'],
        'exhaustive': exhaustive,
        'bounds_completed': getattr(mod, 'BOUNDS', {}).get(tier, ''),
        'shards': len(shards), 'shards_completed': done,
        'outcome_classes': dict(total.outcomes.most_common(40)),
        'failing_cases_total': total.nfails,
        'failing_cases_attributed_to_known_findings': {kid: n for kid, (k, n) in known.items()},
        'new_failing_cases': len(new),
        'repo': os.environ['PFSTMC_REPO'],
        'workers': args.jobs,
    }
    for k, v in total.extra.items():
        if k != 'shard_s':
            cov[k] = v
    ev = {
        'property_id': pid, 'tier': tier, 'seed': seed, 'level': getattr(mod, 'LEVEL', 'model_checking'),
        'coverage': cov, 'assumptions': list(getattr(mod, 'ASSUMPTIONS', [])),
        'wall_s': round(wall, 2), 'violations': len(new),
    }
    if not args.no_evidence and os.path.abspath(args.repo) == '/repo' and not args.only:
        os.makedirs(os.path.join(VERIF, 'evidence'), exist_ok=True)
        with open(os.path.join(VERIF, 'evidence', f'{pid}.json'), 'w') as f:
            json.dump(ev, f, indent=1, default=str)
    print(f'{pid} {tier}: shards={done}/{len(shards)} executions={total.evals} transitions={total.transitions} '
          f'states={len(total.states)} traces_vs_model={total.traces} distinct_nontrivial={len(total.nontrivial)} '
          f'fails={total.nfails} known={sum(n for _, n in known.values())} new={len(new)} wall={wall:.1f}s')
    print('  outcomes:', dict(total.outcomes.most_common(12)))
    return 1 if new else 0
