"""The structured-edit alphabet shared by the history explorers (C01 C02 C04 C12 ...).

Targets are enumerated from the *CPython* parse of the current source through the ASDL grammar; an operation is a
json-able dict; apply() executes it on a live tree with plain public pfst calls; render() turns a history into a
stand-alone Python script (the replay artefact)."""
from __future__ import annotations

import ast
import textwrap

from . import oracle as O
from . import universe as U

# ---------------------------------------------------------------------------------------------------------------------
# code alphabet K: per element category, (text, fst-mode); first entries are the simplest

K_ONE = {
    'expr': [('x', 'expr'), ('a + b', 'expr'), ('lambda: 0', 'expr'), ('a if b else c', 'expr'), ('a, b', 'expr'),
             ('(a + b)', 'expr'), ('x := y', 'expr'), ('f(a,\n  b)', 'expr'), ("'é'", 'expr'), ('(p, # c9\n q)', 'expr'), ('yield', 'expr'),
             ('*s', 'expr'), ('not a', 'expr'), ('[i for i in j]', 'expr'), ('a.b[c]', 'expr'), ('-1', 'expr')],
    'stmt': [('pass', 'stmt'), ('x = 1', 'stmt'), ('if a:\n    b\nelse:\n    c', 'stmt'), ('def g(): pass', 'stmt'),
             ('y = 2  # cmt', 'stmt'), ('# pre\nz = 3', 'stmt'), ("'''doc \\\n  more'''", 'stmt'), ('for i in j:\n  k', 'stmt'),
             ('é = "ü"', 'stmt'), ('@d\nclass C:\n    v = 1', 'stmt'), ('return', 'stmt'), ('import m', 'stmt'),
             ('with a as b: pass', 'stmt'), ('try:\n    a\nfinally:\n    b', 'stmt'), ('x; y', 'stmts')],
    'pattern': [('a', 'pattern'), ('1', 'pattern'), ('[a, b]', 'pattern'), ('a | b', 'pattern'),
                ('a as b', 'pattern'), ('C(x)', 'pattern'), ('{1: a}', 'pattern'), ('*r', 'pattern'), ('_', 'pattern'),
                ('a.b', 'pattern')],
    'arg': [('p', 'arg'), ('p: int', 'arg'), ('é', 'arg')],
    'keyword': [('k=v', 'keyword'), ('**kw', 'keyword'), ('k=a if b else c', 'keyword')],
    'alias': [('m', 'alias'), ('m as n', 'alias'), ('m.o', 'alias')],
    'withitem': [('a', 'withitem'), ('a as b', 'withitem'), ('(a, b) as c', 'withitem')],
    'excepthandler': [('except: pass', 'ExceptHandler'), ('except E as e:\n    pass', 'ExceptHandler'),
                      ('except (A, B): pass  # h', 'ExceptHandler')],
    'match_case': [('case 1: pass', 'match_case'), ('case [a, b] if g:\n    pass', 'match_case')],
    'comprehension': [('for a in b', 'comprehension'), ('for a in b if c', 'comprehension'),
                      ('async for a in b', 'comprehension')],
    'type_param': [('T', 'type_param'), ('T: int', 'type_param'), ('*U', 'type_param'), ('**V', 'type_param')],
    'arguments': [('', 'arguments'), ('a, b=1', 'arguments'), ('a, /, b, *c, d=2, **e', 'arguments'), ('*, k', 'arguments')],
    'identifier': [('nm', None), ('é', None)],
    'operator': [('+', 'operator'), ('**', 'operator'), ('//', 'operator'), ('<<', 'operator'), ('@', 'operator')],
    'boolop': [('and', 'boolop'), ('or', 'boolop')],
    'unaryop': [('-', 'unaryop'), ('not', 'unaryop'), ('~', 'unaryop')],
    'cmpop': [('<', 'cmpop'), ('is not', 'cmpop'), ('not in', 'cmpop'), ('==', 'cmpop')],
}

# slice code (one=False): (text, fst-mode) per category
K_SEQ = {
    'expr': [('a, b', 'Tuple'), ('x,', 'Tuple'), ('()', 'Tuple'), ('[p, q, r]', 'List'), ('{s}', 'Set'),
             ('a, # c7\nb', 'Tuple'), ('(i,\n j)', 'Tuple'),
             # (7..9) multi-line code indented deeper than where it goes, with a continuation line that is shallower than its neighbours
             ('[\n        x,\n        (y,\n  z),\n]', 'List'), ('(\n      p,\n      f(q,\n r), s\n)', 'Tuple'),
             ('[\n            m,\n            """t\n u""",\n     n]', 'List'),
             ('*s, t', 'Tuple'), ('a.b, c[d]', 'Tuple')],  # (10, 11) elements that only some contexts take (no star in a del target)
    'stmt': [('x = 1\ny = 2', 'stmts'), ('pass', 'stmts'), ('', 'stmts'), ('# own\nz = 3  # tr\n', 'stmts'),
             ('if a: b\nc', 'stmts'), ("'''d'''\ne", 'stmts')],
    'pattern': [('a, b', 'pattern'), ('[x]', 'pattern'), ('[]', 'pattern')],
    'keyword': [('k=v, **kw', '_arglikes'), ('j=1', '_arglikes')],
    'alias': [('m, n as o', '_aliases'), ('p', '_aliases')],
    'withitem': [('a as b, c', '_withitems'), ('d', '_withitems')],
    'excepthandler': [('except A: pass\nexcept B as b: pass', '_ExceptHandlers'), ('except: pass', '_ExceptHandlers')],
    'match_case': [('case 1: pass\ncase _: pass', '_match_cases'), ('case x: pass', '_match_cases')],
    'comprehension': [('for a in b for c in d', '_comprehensions'), ('for e in f', '_comprehensions')],
    'type_param': [('T, *U', '_type_params'), ('V', '_type_params')],
}

SPECIAL_SEQ = {  # (parent class, field) -> slice codes in the field's own syntax
    ('Assign', 'targets'): [('a = b =', '_Assign_targets'), ('t =', '_Assign_targets')],
    ('FunctionDef', 'decorator_list'): [('@a\n@b', '_decorator_list'), ('@c', '_decorator_list')],
    ('AsyncFunctionDef', 'decorator_list'): [('@a\n@b', '_decorator_list')],
    ('ClassDef', 'decorator_list'): [('@a\n@b', '_decorator_list'), ('@c', '_decorator_list')],
    ('comprehension', 'ifs'): [('if a if b', '_comprehension_ifs'), ('if c', '_comprehension_ifs')],
    ('BoolOp', 'values'): [('a and b', 'expr'), ('c or d', 'expr')],
    ('MatchOr', 'patterns'): [('a | b', 'pattern'), ('1 | 2', 'pattern')],
    ('Compare', 'comparators'): [],
    ('Call', 'args'): [('a, *b', '_arglikes'), ('c', '_arglikes')],
    ('ClassDef', 'bases'): [('a, *b', '_arglikes'), ('c', '_arglikes')],
    ('Dict', 'keys'): [], ('Dict', 'values'): [], ('MatchMapping', 'keys'): [], ('MatchMapping', 'patterns'): [],
    ('MatchClass', 'patterns'): [('a, b', 'pattern')], ('MatchClass', 'kwd_patterns'): [],
    ('arguments', 'posonlyargs'): [], ('arguments', 'args'): [], ('arguments', 'kwonlyargs'): [],
    ('arguments', 'kw_defaults'): [], ('arguments', 'defaults'): [],
    ('JoinedStr', 'values'): [], ('TemplateStr', 'values'): [],
    ('Module', 'type_ignores'): [],
}

EDIT_TYPES = ('expr', 'stmt', 'pattern', 'arg', 'keyword', 'alias', 'withitem', 'excepthandler', 'match_case',
              'comprehension', 'type_param', 'arguments')
OP_TYPES = ('operator', 'boolop', 'unaryop', 'cmpop')


# ---------------------------------------------------------------------------------------------------------------------
# pure-AST form of a piece of code, built with CPython only (embedding table)

def pure_ast(text: str, mode: str):
    if mode == 'expr':
        return U.parse_expr(text)
    if mode == 'stmt':
        (s,) = ast.parse(text).body
        return s
    if mode == 'stmts':
        return ast.parse(text)
    if mode == 'pattern':
        return U.parse_pattern(text)
    if mode == 'arg':
        return ast.parse(f'def f({text}): pass').body[0].args.args[0]
    if mode == 'keyword':
        return ast.parse(f'f({text})').body[0].value.keywords[0]
    if mode == 'alias':
        return ast.parse(f'import {text}').body[0].names[0]
    if mode == 'withitem':
        return ast.parse(f'with {text}: pass').body[0].items[0]
    if mode == 'ExceptHandler':
        return ast.parse('try: pass\n' + text).body[0].handlers[0]
    if mode == 'match_case':
        return ast.parse('match _:\n' + textwrap.indent(text, ' ')).body[0].cases[0]
    if mode == 'comprehension':
        return ast.parse(f'[_ {text}]').body[0].value.generators[0]
    if mode == 'type_param':
        return ast.parse(f'type X[{text}] = _').body[0].type_params[0]
    if mode == 'arguments':
        return ast.parse(f'def f({text}): pass').body[0].args
    if mode in ('Tuple', 'List', 'Set'):
        return U.parse_expr(text)
    if mode in ('operator', 'boolop', 'unaryop', 'cmpop'):
        if mode == 'unaryop':
            return ast.parse(f'{text} a').body[0].value.op
        e = ast.parse(f'a {text} b').body[0].value
        return e.op if mode != 'cmpop' else e.ops[0]
    return None


def make_code(fst, text, mode, form):
    """The object handed to pfst for one of the three code forms."""
    if text is None:
        return None
    if form == 'src' or mode is None:
        return text
    if form == 'ast':
        a = pure_ast(text, mode)
        return a if a is not None else text
    if form == 'fst':
        return fst.FST(text, mode)
    raise ValueError(form)


# ---------------------------------------------------------------------------------------------------------------------
# enumeration of operations enabled in a source (targets from CPython's parse)

def _codes(table, typ, nk, forms):
    for k, (text, mode) in enumerate(table.get(typ, ())[:nk]):
        for form in forms:
            if form == 'ast' and (mode is None or pure_ast_safe(text, mode) is None):
                continue
            if form == 'fst' and mode is None:
                continue
            yield text, mode, form


def pure_ast_safe(text, mode):
    try:
        return pure_ast(text, mode)
    except (SyntaxError, ValueError, IndexError):
        return None


def enumerate_ops(src: str, *, nk=3, nks=2, forms=('src', 'ast', 'fst'), opts=({},), kinds=None, max_slice_len=4,
                  tree=None, extra=(), lc_texts=('lc', None), seq_from=0):
    """All operation instances of the alphabet enabled on `src` (a Module program)."""
    tree = tree or ast.parse(src)
    want = lambda k: kinds is None or k in kinds  # noqa: E731
    for path, parent, field, idx, child in O.iter_slots(tree, O.NODE_TYPES):
        typ, card = O.field_info(parent, field)
        p = [list(x) for x in path]
        pcls = parent.__class__.__name__
        if typ in EDIT_TYPES:
            for o in opts:
                if want('replace'):
                    for text, mode, form in _codes(K_ONE, typ, nk, forms):
                        yield {'op': 'replace', 'path': p, 'code': [text, mode, form], 'opts': o}
                if card in '*?' and card:
                    if want('remove'):
                        yield {'op': 'remove', 'path': p, 'opts': o}
                    if want('cut'):
                        yield {'op': 'cut', 'path': p, 'opts': o}
            if want('setattr') and idx is None:
                for text, mode, form in _codes(K_ONE, typ, min(nk, 2), ('src',)):
                    yield {'op': 'setattr', 'path': p[:-1], 'field': field, 'code': [text, mode, form]}
                if card == '?' and want('delattr'):
                    yield {'op': 'delattr', 'path': p[:-1], 'field': field}
            if want('setitem') and idx is not None:
                for text, mode, form in _codes(K_ONE, typ, 1, ('src',)):
                    yield {'op': 'setitem', 'path': p[:-1], 'field': field, 'idx': idx, 'code': [text, mode, form]}
                yield {'op': 'delitem', 'path': p[:-1], 'field': field, 'idx': idx}
        elif typ in OP_TYPES and want('replace_op'):
            for text, mode, form in _codes(K_ONE, typ, nk, ('src', 'fst')):
                yield {'op': 'replace', 'path': p, 'code': [text, mode, form], 'opts': {}}
    if 'par' in extra or 'par-lite' in extra:  # explicit (un)parenthesization of expression / pattern nodes
        for path, parent, field, idx, child in O.iter_slots(tree, ('expr', 'pattern')):
            p = [list(x) for x in path]
            yield {'op': 'par', 'path': p, 'force': False}
            if 'par' in extra:
                yield {'op': 'par', 'path': p, 'force': True}
            yield {'op': 'unpar', 'path': p}
            if isinstance(child, (ast.Tuple, ast.MatchSequence)) and 'par' in extra:
                yield {'op': 'unpar', 'path': p, 'node': True}  # also the sequence's own delimiters
    # list fields (also the empty ones)
    for path, node in O.iter_nodes(tree):
        p = [list(x) for x in path]
        ncls = node.__class__.__name__
        if ncls in ('Global', 'Nonlocal'):  # lists of identifiers (no nodes): slices in source form only
            n = len(node.names)
            for i in range(n + 1):
                for j in range(i, n + 1):
                    if want('put_slice') and not (i == 0 and j == n):
                        yield {'op': 'put_slice', 'path': p, 'field': 'names', 'start': i, 'stop': j, 'code': ['nm1, nm2', None, 'src'], 'opts': {}}
                    if j > i and not (i == 0 and j == n) and want('del_slice'):
                        yield {'op': 'put_slice', 'path': p, 'field': 'names', 'start': i, 'stop': j, 'code': [None, None, 'src'], 'opts': {}}
        for field, typ, card in O.GRAMMAR.get(ncls, ()):
            if card == '*' and typ in EDIT_TYPES:
                n = len(getattr(node, field))
                seqs = SPECIAL_SEQ.get((ncls, field), K_SEQ.get(typ, ()))
                if (ncls, field) in SPECIAL_SEQ and not seqs:
                    continue
                if n > max_slice_len:
                    continue
                for o in opts:
                    for i in range(n + 1):
                        for j in range(i, n + 1):
                            if want('put_slice'):
                                for text, mode in seqs[seq_from:nks]:
                                    for form in forms:
                                        if form == 'ast' and (mode not in ('Tuple', 'List', 'Set', 'stmts')
                                                              or pure_ast_safe(text, mode) is None):
                                            continue
                                        yield {'op': 'put_slice', 'path': p, 'field': field, 'start': i, 'stop': j,
                                               'code': [text, mode, form], 'opts': o}
                            if j > i and want('del_slice'):
                                yield {'op': 'put_slice', 'path': p, 'field': field, 'start': i, 'stop': j,
                                       'code': [None, None, 'src'], 'opts': o}
                                if want('cut_slice'):
                                    yield {'op': 'cut_slice', 'path': p, 'field': field, 'start': i, 'stop': j, 'opts': o}
                    if want('insert'):
                        ones = [(t, m) for t, m in K_ONE.get(typ, ())[:min(nk, 2)]]
                        if (ncls, field) in (('Call', 'args'), ('ClassDef', 'bases')):
                            ones = [('x', 'expr'), ('*s', 'expr')]
                        for text, mode in ones:
                            for i in range(n + 1):
                                yield {'op': 'insert', 'path': p, 'field': field, 'idx': i, 'code': [text, mode, 'src'],
                                       'opts': o}
                            yield {'op': 'append', 'path': p, 'field': field, 'code': [text, mode, 'src'], 'opts': o}
                            yield {'op': 'prepend', 'path': p, 'field': field, 'code': [text, mode, 'src'], 'opts': o}
                        for text, mode in seqs[:1]:
                            yield {'op': 'extend', 'path': p, 'field': field, 'code': [text, mode, 'src'], 'opts': o}
                            yield {'op': 'prextend', 'path': p, 'field': field, 'code': [text, mode, 'src'], 'opts': o}
            elif typ == 'identifier' and want('identifier'):
                if card == '*':
                    continue
                for text, _ in K_ONE['identifier']:
                    yield {'op': 'put', 'path': p, 'field': field, 'code': [text, None, 'src'], 'opts': {}}
            elif want('identifier') and (ncls, field) in (('Constant', 'value'), ('MatchSingleton', 'value')):
                for v in (True, None, 7, 'zz', -0.0) if ncls == 'Constant' else (True, None):  # primitive values (other type than before too)
                    if not (v == getattr(node, field) and type(v) is type(getattr(node, field))):
                        yield {'op': 'put', 'path': p, 'field': field, 'code': [v, None, 'src'], 'opts': {}}
            elif want('identifier') and (ncls, field) == ('ImportFrom', 'level'):
                for v in (0, 1, 3):
                    if v != (node.level or 0):
                        yield {'op': 'put', 'path': p, 'field': field, 'code': [v, None, 'src'], 'opts': {}}
        if want('docstr') and ncls in ('Module', 'FunctionDef', 'AsyncFunctionDef', 'ClassDef'):
            for text in ('doc', 'two\nlines', None):
                yield {'op': 'put_docstr', 'path': p, 'text': text}
        if kinds is not None and 'src_tail' in kinds and isinstance(node, ast.stmt) and not hasattr(node, 'body') and not hasattr(node, 'cases'):
            # the text behind a simple statement up to the end of its line, rewritten with put_src(action=None) called on that statement
            for text in ('  # tail put as source', '', '   '):
                yield {'op': 'put_src_tail', 'path': p, 'text': text}
        if want('line_comment') and isinstance(node, ast.stmt):
            for text in lc_texts:
                yield {'op': 'put_line_comment', 'path': p, 'text': text}
            for fld in ('orelse', 'finalbody'):
                if getattr(node, fld, None) and not (fld == 'orelse' and isinstance(node, ast.If)
                                                     and len(node.orelse) == 1 and isinstance(node.orelse[0], ast.If)):
                    yield {'op': 'put_line_comment', 'path': p, 'text': 'lf', 'field': fld}


# ---------------------------------------------------------------------------------------------------------------------

def node_at(root, path):
    a = root.a
    for f, i in path:
        a = getattr(a, f)
        if i is not None:
            a = a[i]
    return a.f


def apply(fst, root, op):
    """Execute one operation with plain public pfst calls. Raises whatever pfst raises."""
    k = op['op']
    o = dict(op.get('opts') or {})
    o.setdefault('norm', True)
    n = node_at(root, op['path'])
    if k == 'replace':
        return n.replace(make_code(fst, *op['code']), **o)
    if k == 'remove':
        return n.remove(**o)
    if k == 'cut':
        return n.cut(**o)
    if k == 'put_slice':
        return n.put_slice(make_code(fst, *op['code']), op['start'], op['stop'], op['field'], **o)
    if k == 'cut_slice':
        return n.get_slice(op['start'], op['stop'], op['field'], cut=True, **o)
    if k == 'insert':
        return n.insert(make_code(fst, *op['code']), op['idx'], op['field'], **o)
    if k in ('append', 'prepend', 'extend', 'prextend'):
        return getattr(n, k)(make_code(fst, *op['code']), op['field'], **o)
    if k == 'put':
        return n.put(make_code(fst, *op['code']), field=op['field'], **o)
    if k == 'setattr':
        with fst.FST.options(norm=True):
            return setattr(n, op['field'], make_code(fst, *op['code']))
    if k == 'delattr':
        with fst.FST.options(norm=True):
            return delattr(n, op['field'])
    if k == 'setitem':
        with fst.FST.options(norm=True):
            getattr(n, op['field'])[op['idx']] = make_code(fst, *op['code'])
        return
    if k == 'delitem':
        with fst.FST.options(norm=True):
            del getattr(n, op['field'])[op['idx']]
        return
    if k == 'par':
        return n.par(op['force'])
    if k == 'unpar':
        return n.unpar(node=True) if op.get('node') else n.unpar()
    if k == 'put_docstr':
        return n.put_docstr(op['text'], **o)
    if k == 'put_line_comment':
        return n.put_line_comment(op['text'], op.get('field'))
    if k == 'put_src_tail':
        ln, col = n.end_ln, n.end_col
        line = root.lines[ln]
        if line[col:].lstrip()[:1] not in ('', '#'):
            raise ValueError('something else follows the statement on its line')
        if line[col:] == op['text']:
            raise ValueError('nothing to change')
        return n.put_src(op['text'], ln, col, ln, len(line), action=None)
    raise ValueError(k)


def op_id(op):
    c = op.get('code')
    parts = [op['op'] + (':' + op['fault'] if 'fault' in op else ''), O.path_str([tuple(x) for x in op['path']])]
    if 'field' in op:
        parts.append(op['field'])
    if 'start' in op:
        parts.append(f"{op['start']}:{op['stop']}")
    if 'idx' in op:
        parts.append(str(op['idx']))
    if c:
        parts.append(f'{c[0]!r}/{c[2]}')
    if 'text' in op:
        parts.append(repr(op['text']))
    if 'force' in op:
        parts.append(f"force={op['force']}")
    if op.get('node'):
        parts.append('node=True')
    if op.get('opts'):
        parts.append(','.join(f'{k}={v!r}' for k, v in sorted(op['opts'].items())))
    return ' '.join(parts)


def render(src: str, ops, kind='exec', tail='') -> str:
    """A stand-alone script replaying a history with plain pfst calls."""
    lines = ['import ast', 'import fst', 'from fst import FST', 'from pfstmc.edits import apply  # thin dispatcher to public pfst calls',
             f'root = FST({src!r}, {kind!r})']
    for op in ops:
        lines.append(f'apply(fst, root, {op!r})')
        lines.append('print(repr(root.src))')
    lines.append("assert ast.dump(ast.parse(root.src), include_attributes=True) == ast.dump(root.a, include_attributes=True), 'C01'")
    lines.append(tail)
    return 'import sys; sys.path[:0] = ["/verif", "/repo/src"]\n' + '\n'.join(lines) + '\n'
