"""Module-rooted start programs for the history explorers. Ordered simplest first. Every program is validated by
CPython at import; comments carry unique numbers so that conservation can be judged as a multiset."""
from __future__ import annotations

import ast

PROGRAMS = [
    # 0-9: expression containers and calls
    "x = [a, b, c]",
    "f(a, *b, k=c, **d)",
    "t = (a, b), {c: d, **e}, {g, h}",
    "r = a if b else c  # c1",
    "v = [i for i in j if k]",
    "a, b = c, d = e",
    "del a, b[c], d.e",
    "x = a + b * -c",
    "print(f'{a!r:>{w}} {b}')",
    "y = lambda p, q=1, *r, s, **t: p",
    # 10-19: blocks
    "if a:\n    b\nelse:\n    c",
    "if a:\n    b  # c1\nelif c:\n    d\nelse:\n    e  # c2",
    "def f(a, b=1, *c, d, **e) -> r:\n    '''doc'''\n    return a",
    "@dec\nclass C(B, m=M):\n    x = 1\n\n    def g(self): pass",
    "for i in j:\n    k\nelse:\n    l",
    "while a:\n    b; c\n    d",
    "try:\n    a\nexcept E as e:\n    b\nexcept (F, G):\n    c\nelse:\n    d\nfinally:\n    f",
    "with a as b, c as d:\n    e",
    "match s:\n    case [a, *b]:\n        c\n    case {1: d, **r} | C(x, k=y) if g:\n        e\n    case _:\n        pass",
    "import m, n as o\nfrom . import p as q, r\nglobal_ = 1",
    # 20-29: layouts
    "x = [  # c1\n    a,  # c2\n    b,\n    # c3\n    c,\n]",
    "f(a,\n  b,\n  k=c)  # c1",
    "# c1\nx = 1  # c2\n\n# c3\ny = 2\n# c4",
    "if a: b; c\nelse: d",
    "x = (a +\n     b)  # c1\ny = a \\\n    + b",
    "def f():\n\tif a:\n\t\tb  # c1\n\treturn c",
    "é = 'ü' + ö(ä, 'ß')  # çé\nñ = é",
    "class C:\n  '''doc\n  more'''\n  a = 1\n\n\n  b = 2",
    "x = 1; y = 2; z = 3  # c1",
    "a = ((b))\nc = ( # c1\n  d\n)",
    # 30-39: further node kinds
    "async def f():\n    async with a as b:\n        await c\n    async for d in e:\n        yield d",
    "def f[T: int, *U, **V](a: T) -> U: pass\ntype X[T] = list[T]",
    "try:\n    a\nexcept* E:\n    b",
    "global g\nx: int = 1\ny: str\nz += 1",
    "assert a, b\nraise E from f\nreturn_ = 1",
    "s = a[b:c, d] + a[::2]\nn = not a and b or c < d <= e",
    "def f():\n    nonlocal_ = 1\n    def g():\n        nonlocal nonlocal_\n        return (yield)",
    "with (a as b,\n      c as d):  # c1\n    pass",
    "if a:\n    pass\n\n\n# c1\n\nelse:  # c2\n    # c3\n    pass  # c4",
    "d = {\n    'k': v,  # c1\n    **o,\n}\nw = x if y else (z\n    )",
    # 40-43: shapes asked for by seeded regressions
    "try:\n    a\nexcept* E as e:\n    b\nexcept* (F, G):\n    c",
    "async with u: pass\nasync with a as b, c: pass",
    "while c: a; b\nfor i in j: k",
    "if x: a = 1\nelif y: b = 2\nelse: c = 3",
    "x = a if(b) else c\ny = not(f) or (g)\nz = ((h))\nw = a if(b)else c",
    "f(a, k=b, *c, **d)\nclass C(B, m=M, *N): pass",
    # 46: delimiters shared between a call and its solo generator argument
    "s = sum(x for x in y)\nprint(a, (i for i in j))\n@d(k for k in l)\ndef f(): pass",
    # 47-48: primitives in tight layouts (literals touching keywords / dots), names containing 'as', relative imports
    "x = not'b'\ny = 'a'.b\nz = 1 if'a'else 2\nw = ['c',-1]",
    "import asab as a, fromm\nfrom .a.b import c as d\nfrom .. import e\nfrom ...f import (g as h)",
    # 49: lambdas whose defaults contain colons (the ':' that ends the parameter list has to be found)
    "f = lambda event, opts={'retry': 1}: f()\ng = lambda a=b[1:2], *c: a\nh = lambda k=(lambda: 0): k",
    # 50-51: nodes whose end has to be carried up the parent chain over several lines
    "match s:\n    case 'go', 'north' | \\\n            'south' | \\\n            'east':\n        pass",
    "match s:\n    case 1:\n        with a:\n            b\n        c\n        d",
    # 52: strings spread over several source lines by backslash-newline only (no line break in the value) in (non-)docstring position
    "class G:\n    def m(self):\n        \"\"\"Return \\\n        more.\"\"\"\n        s = 'p \\\n        q'\n        'r \\\n        t'\n        return s",
    # 53: parameter lists that start with the bare '*' / have only keyword-only parameters
    "def f(*, a, b=1): pass\ng = lambda *, k: k\nasync def h(p, /, *, q): pass",
    # 54: annotated assignments whose targets are parenthesized in the source (the 'simple' flag depends on the parentheses)
    "(a): int = 1\n(b.c): d\n(\n e\n): f = 2\ng: h",
    # 55: nodes without a position of their own (match_case) at the end of a block that is not the last statement of its parent
    "def f(cmd):\n    match cmd:\n        case 1:\n            a\n        case 2:\n            b\n    return cmd",
    # 56: arguments / bases and keywords over several lines with falling columns (source order is (line, column) order)
    "r = call(a, key=1,\n    *rest)\nclass C(B, m=M,\n  *bases): pass",
    # 57: grouping parentheses that alone keep a node apart from the keywords / names around it; targets of del inside brackets
    "with(a)as b: pass\nx = [i for i in(b)for j in k if(c)]\ny = a if((q))else c\nz = not(p)\ndel (d, e), [g]\nfor h in( i, j): pass\nk = l if( m, n )else o",
    # 58: identifiers whose source spelling differs in length from the normalized name the AST holds (NFKC: 'ﬁ' is 'fi', 'ℌ' is 'H')
    "def f(ﬁ, b: ℌ = ﬁ):\n    import m as ﬁ, n.ﬂ as o\n    try: pass\n    except E as ﬁ: pass\n    return ﬁ.ﬂ(ℌ=1)\ntype X[ﬁ: int] = ﬁ\ndef g(*, ﬁx=1, ℌ=2): pass",
    # 59: tab indentation (nested), a form feed between statements, trailing blanks, whitespace-only and empty lines inside blocks,
    # eight-column and two-column indentation, final newline
    "if a:\n\tb = 1  \n\n\tif c:\n\t\td = [e,\n\t\t     f]\t# t\n\t  \n\tg = 2\n\x0c\nclass K:\n        x = 1\n\n        def m(s): return s \ndef h():\n  \'\'\'d\'\'\'\n  return 1\n",
    # 60: undelimited sequences spread over lines (subscript index, backslash-continued tuples) with multi-byte text on their first line
    "v = y['é', a,\n      b]\nfor i in 'ü', c, \\\n    d: pass\nw = 'ñ', e, \\\n    f\ndel x['ö', g,\n  h], z",
    # 61: operands that start with an operator / bracket / quote directly behind a keyword
    "def f():\n    x = yield-a\n    y = yield from[b]\n    assert-c, 'm'\n    del[d][0]\n    while-e: pass\n    z = g if-h else i, j in[k], not[l], n is-o\n    raise-p from-q\n    return-r",
]

for _p in PROGRAMS:
    ast.parse(_p)
