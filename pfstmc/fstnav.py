"""Thin adapter between CPython-side paths and live pfst objects (addressing only, no judging)."""
from __future__ import annotations

import ast
import os
import re


def fst_mod():
    import fst
    return fst


def node_at(root, path):
    """Live FST node at a CPython path ((field, idx), ...) below root."""
    a = root.a
    for f, i in path:
        a = getattr(a, f)
        if i is not None:
            a = a[i]
    return a.f


_CTX = re.compile(r",? ?ctx=(Load|Store|Del)\(\)")


def dump_noctx(a):
    return _CTX.sub('', ast.dump(a))


def live_vs_parse(root, kind=None):
    """C01 judge. Returns None if equal, else a short description. Uses only root.src, root.a and CPython."""
    from . import oracle as O
    src = root.src
    kind = kind or root.a.__class__.__name__
    try:
        ref = O.parse_as_root(src, kind)
    except (SyntaxError, ValueError, RecursionError) as exc:
        return f'source does not parse as {kind}: {exc!r}\nsrc={src!r}'
    if ref is None:
        return None
    try:
        live = ast.dump(root.a, include_attributes=True)
    except Exception as exc:
        return f'live tree cannot be dumped: {exc!r}'
    want = ast.dump(ref, include_attributes=True)
    if live != want:
        return f'live tree != from-scratch parse\nsrc={src!r}\n' + O.first_diff(live, want)
    return None


def registry_leftover():
    """Read-only look at the process-global modification registry (behavioural checks are primary)."""
    import fst.fst_core as fc
    reg = getattr(fc, '_MODIFYING', None)
    if reg is None:
        return None
    try:
        return len(reg)
    except TypeError:
        return None
