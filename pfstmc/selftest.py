"""setup_cmd: nothing to build; validate the universe tables and the oracles against CPython so that a broken
alphabet or judge aborts before any check is believed."""
import ast
import os
import sys

sys.path.insert(0, '/repo/src')


def main():
    from . import oracle as O, universe as U
    n = 0
    for p in U.PARENTS_EXPR + U.PARENTS_STMT + U.PARENTS_PATTERN:
        t = ast.parse(p)
        n += len(list(O.iter_slots(t, ('expr', 'pattern'))))
    assert n > 400, n
    assert O.compiles('x = 1') and not O.compiles('u = *a') and O.compiles('await x') and O.compiles('yield from x')
    assert O.byte2char('é=1', 3) == 2 and O.char2byte('é=1', 2) == 3
    assert len(O.GRAMMAR) > 70
    import fst
    assert os.path.abspath(fst.__file__).startswith('/repo/src'), fst.__file__
    from importlib import import_module
    for f in sorted(os.listdir(os.path.join(os.path.dirname(__file__), 'props'))):
        if f.startswith('c') and f.endswith('.py'):
            m = import_module(f'pfstmc.props.{f[:-3]}')
            if hasattr(m, 'selftest'):
                m.selftest()
    print('pfstmc selftest ok:', n, 'slots;', len(O.GRAMMAR), 'grammar classes')


if __name__ == '__main__':
    main()
