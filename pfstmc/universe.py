"""The alphabet: witness programs, child code, layouts.  Every table is validated against CPython at import time
(a witness CPython rejects aborts the run, so the universe cannot silently shrink)."""
from __future__ import annotations

import ast

from . import oracle as O

# ---------------------------------------------------------------------------------------------------------------------
# expression children: one per expression kind and per precedence class (simplest first)

EXPR_CHILDREN = [
    'x', '1', "'s'", 'a.b', 'a[b]', 'f(a)', 'a + b', 'a * b', 'a ** b', '-a', 'not a', 'a and b', 'a or b',
    'a < b', 'a if b else c', 'lambda: a', 'a, b', '(a, b)', '[a, b]', '{a, b}', '{a: b}', '[a for a in b]',
    '(a for a in b)', 'await a', 'yield', 'yield a', 'yield from a', 'a := b', '*a', "f'{a}'", 'a | b', 'a is not b',
    '...', 'None', '-1', '1.5', '1j', 'a @ b', 'a << b', 'a ^ b', 'a & b', '~a', '+a', 'a not in b',
    'lambda x, y=1: x', 'a if b else c if d else e', 'a[b:c]', "'a' 'b'", '{a for a in b}', '{a: b for a in c}',
    'a, ', '()', '[]', '{}', '*a, b', 'a.b.c', 'a()()', '-a ** b', '(-a) ** b', 'a ** -b', 'not a == b',
    'a < b < c', 'a and b or c', 'x.y[z](w)', 'é', "'é' + ü",
    # undelimited sequences whose first and last elements are themselves delimited (the outer node only LOOKS delimited)
    '(a), (b)', '[a], [b]', '(a, b), (c, d)', '[a], b', '(a).b, c[(d)]',
    # names / attribute / subscript chains with parentheses around an inner part (annotation targets forbid them at the start)
    '(a).b', '(a)[b]', '(a.b).c', '(a)()',
]

# children that are multi-line (source form only legal inside brackets, or using continuation)
EXPR_CHILDREN_ML = [
    '(a +\n b)', 'a + \\\n b', 'f(a,\n  b)', '[a,\n b]', '(a if b\n else c)', "'''m\nl'''", '(a, # c\n b)',
    '(a\n and b)', '(lambda:\n a)', 'a[\n b]',
    '(a + # c \\\n b)', '(a # c:\\tmp\\\n .b)',  # a comment that ends in a backslash is not a line continuation
    "('m'  # c \\\n'l')", "('m'  # c \\\n f'{l}')",  # the same between the parts of an implicitly concatenated string
    '(a\n.b)', '(a\n[0])', '(a\n.b).c',
    '*(a +\n b)', 'a\n.b', '"""m\nl"""\n"""k"""', "'m'\n'l'", '("""m\nl"""\n"""k""")',  # implicit concatenation: the line break BETWEEN the literals is not inside a string
     # a starred expression whose value needs its parentheses; code that spans lines without any delimiter of its own
]

PATTERN_CHILDREN = [
    'a', '1', '_', 'a.b', '[a, b]', '(a, b)', 'a, b', '{1: a}', 'C(a)', 'a | b', 'a as b', '(a | b) as c', '*a', '-1',
    '1 + 2j', "'s'", 'None', '[]', 'C()', 'C(a, b=c)', '{}', '{**r}', '[a, *b]', '(a)', '*_', 'a.b.c', '[*a]', '(a,)',
    '(a | b)', '[(a as b)]',
    # undelimited sequences whose first and last elements are themselves delimited (the outer node only LOOKS delimited)
    '[a], [b]', '(a), (b)', '[a, *b], [c]', '[[a]], [[b]]', '[a], b', 'a, [b]', '(a, b), (c, d)',
]

PATTERN_CHILDREN_ML = ['(c |\n d)', '[a,\n b]', 'C(a,\n  b)', '{1: a,\n 2: b}']

# ---------------------------------------------------------------------------------------------------------------------
# parent programs: every expression / pattern / expression-bearing statement kind; slots are derived mechanically

_BINOPS = ['+', '-', '*', '/', '//', '%', '@', '**', '<<', '>>', '|', '^', '&']
_CMPOPS = ['==', '!=', '<', '<=', '>', '>=', 'is', 'is not', 'in', 'not in']

PARENTS_EXPR = (
    [f'u {op} v' for op in _BINOPS]
    + [f'u {op} v' for op in _CMPOPS]
    + ['-u', '+u', '~u', 'not u', 'u and v', 'u or v', 'u and v and w', 'u < v < w',
       'u if v else w', 'lambda: u', 'lambda p=u, *q, r=v: w', 'f(u)', 'f(u, v)', 'f(u, *v, k=w, **z)', 'f(k=u)',
       'f(*u)', 'f(**u)', 'u(v)', 'u[v]', 'u[v:w]', 'u[v:w:z]', 'u[v, w]', 'u[v:w, z]', 'u.attr', '[u, v]', '(u, v)',
       'u, v', '{u, v}', '{u: v}', '{u: v, **w}', '[u for v in w]', '[u for v in w if z]', '{u for v in w}',
       '{u: v for w in z}', '(u for v in w)', '[u for v in w for p in q]', 'await u', '(yield u)', '(yield from u)',
       '(u := v)', '*u, v', '[*u]', "f'{u}'", "f'{u!r}'", "f'{u:>{v}}'", 'u ** v ** w', 'u - v - w', '(u, v)[w]', 'u[v][w]',
       'u.a.b', '-u ** v', 'not u in v', 'u if v else w if p else q', 'f(u for v in w)', 'f(u)(v)',
       'u + v * w', '(u + v) * w', 'u or v and w', '[u async for v in w]', '(u), (v)', '[u], [v]']
)

PARENTS_STMT = [
    'return u', 'del u, v', 'u = v', 'u = v = w', 'u, v = w', 'u += v', 'u: v = w', 'u: v', '(u): v = w',
    'for u in v: pass', 'for u, v in w: pass', 'async for u in v: pass', 'while u: pass', 'if u: pass',
    'if u: pass\nelif v: pass', 'with u: pass', 'with u as v: pass', 'with u as v, w as z: pass',
    'with (u as v, w as z): pass', 'with (u, v): pass', 'async with u as v: pass', 'raise u', 'raise u from v',
    'assert u', 'assert u, v', 'try: pass\nexcept u: pass', 'try: pass\nexcept u as e: pass',
    'try: pass\nexcept* u: pass', 'try: pass\nexcept (u, v): pass',
    'def f(a: u = v, /, b: w = z, *c: p, d: q = r, **e: s) -> t: pass', '@u\ndef f(): pass', '@u\n@v\nclass c: pass',
    'class c(u, v, k=w): pass', 'class c(*u, **v): pass', 'type X = u', 'type X[T: u] = v', 'def f[T: u](): pass',
    'class c[T: (u, v)]: pass', 'u', 'return u, v', 'return', 'yield u', 'await u', 'u = yield v',
    'for u in v, w: pass', 'u[v] = w', 'u.a = v', 'del u[v], w.a', 'x = [u, v] = w', 'x = *u, v = w',
    'print(u, file=v)', 'match u:\n case 1: pass', 'match u, v:\n case 1: pass', 'match u:\n case 1 if v: pass',
    'u = v if w else z', 'u = lambda: v', 'global g', 'import m',
    'async with u: pass', 'async with u, v: pass', 'with u, v: pass', 'with (u): pass', 'async with (u as v): pass',
    'try: pass\nexcept* u as e: pass', 'for u in v: pass\nelse: pass', 'async def f(a=u) -> v: pass', 'x = u,', 'return (u)',
    # annotation targets that are chains of attributes / subscripts (what stands first decides whether the target needs parentheses)
    'u[v].a: w', 'u[v].a.b: w = z', 'u[v].a[p]: w', 'u.a[v].b: w', 'u.a.b: w',
]

PARENTS_PATTERN = [
    'match s:\n case 1: pass', 'match s:\n case a: pass', 'match s:\n case a.b: pass', 'match s:\n case [u, v]: pass',
    'match s:\n case (u, v): pass', 'match s:\n case u, v: pass', 'match s:\n case [u, *v]: pass',
    'match s:\n case {1: u}: pass', 'match s:\n case {1: u, **r}: pass', 'match s:\n case {a.b: u, 2: v}: pass',
    'match s:\n case C(u): pass', 'match s:\n case C(u, v): pass', 'match s:\n case C(u, k=v): pass',
    'match s:\n case C(k=u, l=v): pass', 'match s:\n case u | v: pass', 'match s:\n case u | v | w: pass',
    'match s:\n case (u as v): pass', 'match s:\n case u as v: pass', 'match s:\n case [u] | v: pass',
    'match s:\n case (u | v) as w: pass', 'match s:\n case [[u], v]: pass', 'match s:\n case a.b(u): pass', 'match s:\n case -1: pass', 'match s:\n case 1 + 2j: pass',
    'match s:\n case [u, v] if g: pass', 'match s:\n case {1: [u, v]}: pass',
    'match s:\n case [u], [v]: pass', 'match s:\n case (u), (v): pass', 'match s:\n case [u], v: pass',
]

# replacement fields of f-strings holding a compound expression: what the field expression starts with decides whether a space
# has to separate it from the opening brace ('{ {a} + v}'), at any depth of the leftmost leaf
PARENTS_FSTR = [
    "f'{u + v}'", "f'{u.a}'", "f'{u[v]}'", "f'{u(v)}'", "f'{u if v else w}'", "f'{u, v}'", "f'{u < v}'", "f'{u or v}'",
    "f'{x:{u + v}}'", "f'{x:{u.a}>{v}}'", "f'{u + v!r}'", "f'{u.a[v] + w:>{z}}'", "f'a{u + v}b{w}c'",
    'f"""{u + v}\n{w.a}"""', "f'{(u + v) * w}'", "f'{f(u)(v)}'", "f'{u ** v ** w}'",
]

for _p in PARENTS_EXPR + PARENTS_STMT + PARENTS_PATTERN + PARENTS_FSTR:
    ast.parse(_p)


def parse_pattern(src: str):
    """A pattern fragment parsed by CPython inside `match _:\n case <src>: pass` (the embedding table)."""
    try:
        m = ast.parse(f'match _:\n case {src}: pass')
        return m.body[0].cases[0].pattern
    except SyntaxError:
        m = ast.parse(f'match _:\n case [{src}]: pass')  # MatchStar only exists inside a sequence
        (p,) = m.body[0].cases[0].pattern.patterns
        return p


for _c in PATTERN_CHILDREN + PATTERN_CHILDREN_ML:
    parse_pattern(_c)


def parse_expr(src: str):
    """Pure AST of an expression fragment (positions are irrelevant for pure-AST code, pfst unparses it)."""
    for wrap, get in (('{}', lambda m: m.body[0].value), ('(\n{}\n)', lambda m: m.body[0].value),
                      ('[\n{}\n]', lambda m: m.body[0].value.elts[0])):
        try:
            m = ast.parse(wrap.format(src))
        except SyntaxError:
            continue
        if len(m.body) == 1 and isinstance(m.body[0], ast.Expr):
            return get(m)
    raise SyntaxError(src)


for _c in EXPR_CHILDREN + EXPR_CHILDREN_ML:
    parse_expr(_c)


# ---------------------------------------------------------------------------------------------------------------------
# layouts of a (program, node) pair, by text surgery at CPython positions; kept only when the structure is unchanged

def node_span(src: str, node):
    lines = src.split('\n')
    ln, col, eln, ecol = O.node_char_loc(node, lines)
    return O.offset_of(lines, ln, col), O.offset_of(lines, eln, ecol)


def wrap_layouts(src: str, node, names=('bare', 'par', 'parnl', 'parcmt', 'parsp')):
    """Yield (layout name, new source) where the text of `node` is wrapped in redundant grouping of several shapes."""
    base = O.dump(ast.parse(src))
    s, e = node_span(src, node)
    text = src[s:e]
    forms = {
        'bare': text,
        'par': f'({text})',
        'parnl': f'(\n{text}\n)',
        'parcmt': f'( # c1\n{text} # c2\n)',
        'parsp': f'( {text} )',
        'par2': f'(({text}))',
    }
    for name in names:
        new = src[:s] + forms[name] + src[e:]
        t = O.try_parse(new)
        if t is not None and O.dump(t) == base:
            yield name, new
