"""Independent judges: CPython's parser / tokenizer and small helpers.  No pfst code is used in here."""
from __future__ import annotations

import ast
import io
import re
import tokenize
import warnings

warnings.simplefilter('ignore')

# ---------------------------------------------------------------------------------------------------------------------
# Grammar, from CPython's own ASDL signatures (ast.<cls>.__doc__), not from pfst's tables

_SIG = re.compile(r'^(\w+)\((.*)\)$', re.S)


def _fields_of(cls):
    doc = (cls.__doc__ or '').strip()
    m = _SIG.match(doc)
    if not m or m.group(1) != cls.__name__:
        return None
    out = []
    body = m.group(2).strip()
    if body:
        for part in body.split(','):
            typ, name = part.strip().split()
            card = ''
            if typ[-1] in '*?':
                typ, card = typ[:-1], typ[-1]
            out.append((name, typ, card))
    return out


GRAMMAR = {}  # class name -> [(field, type, card)]
for _n in dir(ast):
    _c = getattr(ast, _n)
    if isinstance(_c, type) and issubclass(_c, ast.AST) and _c is not ast.AST:
        _f = _fields_of(_c)
        if _f is not None and tuple(x[0] for x in _f) == tuple(_c._fields):
            GRAMMAR[_n] = _f

NODE_TYPES = {'expr', 'stmt', 'pattern', 'arg', 'arguments', 'keyword', 'alias', 'withitem', 'excepthandler',
              'match_case', 'comprehension', 'type_param', 'expr_context', 'boolop', 'operator', 'unaryop', 'cmpop',
              'type_ignore', 'mod'}


def field_info(node, field):
    for f, t, c in GRAMMAR[node.__class__.__name__]:
        if f == field:
            return t, c
    raise KeyError(field)


def iter_slots(tree, types=('expr',)):
    """Every (path, parent, field, idx, child) where the field's declared type is in `types`.
    path = tuple of (field, idx|None) from `tree` to the child."""
    def rec(node, path):
        for f, t, c in GRAMMAR.get(node.__class__.__name__, ()):
            if t not in NODE_TYPES:
                continue
            v = getattr(node, f, None)
            if c == '*':
                for i, ch in enumerate(v or ()):
                    if ch is None:
                        continue
                    p = path + ((f, i),)
                    if t in types:
                        yield p, node, f, i, ch
                    yield from rec(ch, p)
            elif v is not None:
                p = path + ((f, None),)
                if t in types:
                    yield p, node, f, None, v
                yield from rec(v, p)
    yield from rec(tree, ())


def iter_nodes(tree):
    """(path, node) pre-order over declared node-typed fields in ASDL order (contexts and operators included)."""
    yield (), tree
    for p, _, _, _, ch in iter_slots(tree, NODE_TYPES):
        yield p, ch


def get_path(tree, path):
    n = tree
    for f, i in path:
        n = getattr(n, f)
        if i is not None:
            n = n[i]
    return n


def set_path(tree, path, value):
    n = get_path(tree, path[:-1])
    f, i = path[-1]
    if i is None:
        setattr(n, f, value)
    else:
        getattr(n, f)[i] = value


def path_str(path):
    return '.'.join(f if i is None else f'{f}[{i}]' for f, i in path) or '<root>'


# ---------------------------------------------------------------------------------------------------------------------
# dumps

def dump(a):
    return ast.dump(a)


def dump_pos(a):
    return ast.dump(a, include_attributes=True)


def parse_norm(a):
    """Normal form of a pure AST: what CPython parses from its unparse. None if it is not valid Python."""
    try:
        return ast.parse(ast.unparse(ast.fix_missing_locations(a)))
    except (SyntaxError, ValueError, AttributeError, TypeError, RecursionError):
        return None


def try_parse(src, mode='exec'):
    try:
        return ast.parse(src, mode=mode)
    except (SyntaxError, ValueError, RecursionError, MemoryError):
        return None


def first_diff(a: str, b: str, ctx=60):
    n = min(len(a), len(b))
    i = next((k for k in range(n) if a[k] != b[k]), n)
    return f'@{i}: ...{a[max(0, i - ctx):i + ctx]!r}  vs  ...{b[max(0, i - ctx):i + ctx]!r}'


# ---------------------------------------------------------------------------------------------------------------------
# root-kind aware from-scratch parse (the C01 judge)

def parse_as_root(src: str, kind: str):
    """Parse `src` from scratch as a tree whose root AST class is `kind`. Returns AST or None if it cannot be judged /
    raises SyntaxError if CPython rejects it. Only kinds CPython can parse on its own are handled here."""
    if kind == 'Module':
        return ast.parse(src)
    if kind == 'Expression':
        return ast.parse(src, mode='eval')
    if kind == 'Interactive':
        return ast.parse(src, mode='single')
    cls = getattr(ast, kind, None)
    if cls is None:
        return None
    if issubclass(cls, ast.stmt):
        m = ast.parse(src)
        if len(m.body) != 1 or not isinstance(m.body[0], cls):
            raise SyntaxError(f'not exactly one {kind}')
        return m.body[0]
    if issubclass(cls, ast.expr):
        e = ast.parse(src, mode='eval').body
        if not isinstance(e, cls):
            raise SyntaxError(f'not a {kind}')
        return e
    return None


# ---------------------------------------------------------------------------------------------------------------------
# tokens

def tokens(src: str):
    """tokenize, tolerant: returns list of TokenInfo (without ENCODING/ENDMARKER) or None if the tokenizer rejects."""
    try:
        return [t for t in tokenize.generate_tokens(io.StringIO(src).readline)
                if t.type not in (tokenize.ENDMARKER,)]
    except (tokenize.TokenError, SyntaxError, IndentationError, SystemError):  # SystemError: CPython 3.12.1's tokenizer on some nested f-strings
        return None


SIG_TOKS = (tokenize.NAME, tokenize.NUMBER, tokenize.STRING, tokenize.OP, tokenize.COMMENT,
            tokenize.FSTRING_START, tokenize.FSTRING_MIDDLE, tokenize.FSTRING_END)


def sig_tokens(src):
    ts = tokens(src)
    if ts is None:
        return None
    return [t for t in ts if t.type in SIG_TOKS]


def comments(src):
    ts = tokens(src)
    if ts is None:
        return None
    return [t.string for t in ts if t.type == tokenize.COMMENT]


# byte <-> char column conversion independent of pfst's bistr

def byte2char(line: str, b: int) -> int:
    return len(line.encode('utf8')[:b].decode('utf8', 'replace'))


def char2byte(line: str, c: int) -> int:
    return len(line[:c].encode('utf8'))


def node_char_loc(node, lines):
    """(ln0, col, end_ln0, end_col) in characters, 0-based lines, from CPython positions."""
    ln, eln = node.lineno - 1, node.end_lineno - 1
    return (ln, byte2char(lines[ln], node.col_offset), eln, byte2char(lines[eln], node.end_col_offset))


def src_of(node, src: str) -> str:
    return ast.get_source_segment(src, node)


def offset_of(lines_kept, ln, col):
    """absolute char offset of (ln, col) where lines_kept = src.split('\\n')"""
    return sum(len(l) + 1 for l in lines_kept[:ln]) + col


def compiles(src: str) -> bool:
    """Is `src` acceptable to CPython's *compiler* in some function context (sync or async)? ast.parse alone accepts
    e.g. `u = *a` or `case f'{a}':` which are not valid Python."""
    import textwrap
    body = textwrap.indent(src, ' ') if src.strip() else ' pass'
    for head in ('def _f():\n', 'async def _f():\n'):
        try:
            compile(head + body + '\n', '<c>', 'exec', dont_inherit=True)
            return True
        except (SyntaxError, ValueError, RecursionError):
            pass
    return False
