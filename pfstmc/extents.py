"""Token-based extents oracle (CPython tokenize + CPython positions only)."""
from __future__ import annotations

import ast
import bisect
import tokenize

from . import oracle as O


class Src:
    def __init__(self, src: str):
        self.src = src
        self.lines = src.split('\n')
        self.line_off = [0]
        for l in self.lines[:-1]:
            self.line_off.append(self.line_off[-1] + len(l) + 1)
        toks = O.tokens(src)
        if toks is None:
            raise SyntaxError('tokenize failed')
        self.toks = []  # significant, non-comment: (start, end, string, type)
        self.comments = []
        for t in toks:
            if t.type in O.SIG_TOKS:
                s = self.off(t.start[0] - 1, t.start[1])
                ecol = t.end[1]
                if t.end[0] != t.start[0] and '\n' in t.string:  # CPython 3.12 reports the end column of a token that spans lines in bytes
                    ecol = len(t.string.rsplit('\n', 1)[1])
                e = self.off(t.end[0] - 1, ecol)
                if t.type == tokenize.COMMENT:
                    self.comments.append((s, e, t.string))
                else:
                    self.toks.append((s, e, t.string, t.type))
        self.starts = [t[0] for t in self.toks]
        self.ends = [t[1] for t in self.toks]

    def off(self, ln, col):
        return self.line_off[ln] + col

    def lc(self, off):
        ln = bisect.bisect_right(self.line_off, off) - 1
        return ln, off - self.line_off[ln]

    def span(self, node):
        """(start, end) char offsets from CPython byte positions."""
        ln, eln = node.lineno - 1, node.end_lineno - 1
        return (self.off(ln, O.byte2char(self.lines[ln], node.col_offset)),
                self.off(eln, O.byte2char(self.lines[eln], node.end_col_offset)))

    def loc4(self, s, e):
        return self.lc(s) + self.lc(e)

    def tok_before(self, off):
        """index of last token ending at or before off, or -1"""
        return bisect.bisect_right(self.ends, off) - 1

    def tok_after(self, off):
        """index of first token starting at or after off, or len"""
        return bisect.bisect_left(self.starts, off)

    def enclosing(self, s, e):
        """Balanced '(' ')' pairs immediately enclosing [s, e): list of (start, end) innermost first."""
        out = []
        i, j = self.tok_before(s), self.tok_after(e)
        while i >= 0 and j < len(self.toks) and self.toks[i][2] == '(' and self.toks[j][2] == ')':
            out.append((self.toks[i][0], self.toks[j][1]))
            i -= 1
            j += 1
        return out

    def expand(self, s, e):
        enc = self.enclosing(s, e)
        return enc[-1] if enc else (s, e)

    def toks_between(self, a, b):
        i, j = self.tok_after(a), self.tok_before(b)
        return self.toks[i:j + 1]


OPSTR = {
    ast.Add: '+', ast.Sub: '-', ast.Mult: '*', ast.Div: '/', ast.FloorDiv: '//', ast.Mod: '%', ast.MatMult: '@',
    ast.Pow: '**', ast.LShift: '<<', ast.RShift: '>>', ast.BitOr: '|', ast.BitXor: '^', ast.BitAnd: '&',
    ast.Eq: '==', ast.NotEq: '!=', ast.Lt: '<', ast.LtE: '<=', ast.Gt: '>', ast.GtE: '>=', ast.Is: 'is',
    ast.IsNot: 'is not', ast.In: 'in', ast.NotIn: 'not in', ast.Invert: '~', ast.Not: 'not', ast.UAdd: '+', ast.USub: '-',
    ast.And: 'and', ast.Or: 'or',
}


def operator_span(S: Src, parent, op, idx=None):
    """Exact span of an operator token sequence, from the tokens between its operands. None if not applicable."""
    want = OPSTR[op.__class__].split()
    if isinstance(parent, ast.UnaryOp):
        s, _ = S.span(parent)
        i = S.tok_after(s)
        t = S.toks[i]
        return (t[0], t[1]) if t[2] == want[0] else None
    if isinstance(parent, ast.BinOp):
        a, b = S.span(parent.left)[1], S.span(parent.right)[0]
    elif isinstance(parent, ast.AugAssign):
        a, b = S.span(parent.target)[1], S.span(parent.value)[0]
        want = [want[0] + '=']
    elif isinstance(parent, ast.Compare):
        prev = parent.left if idx == 0 else parent.comparators[idx - 1]
        a, b = S.span(prev)[1], S.span(parent.comparators[idx])[0]
    else:
        return None
    ts = [t for t in S.toks_between(a, b) if t[2] not in '()']
    if [t[2] for t in ts] != want:
        return None
    return ts[0][0], ts[-1][1]
