"""Explicit-state breadth-first exploration of edit histories on the real objects.

A state is the history that reaches it; build() creates a fresh tree and replays the history (live pfst objects are
not copied); canon() is (root kind, indent, source, dump with positions) -- every public observable except per-node
caches and FST object identity (DESIGN 2.3)."""
from __future__ import annotations

import ast

from . import edits as E
from .core import CaseTimeout, deadline, h64


class ReplayDivergence(Exception):
    pass


def canon(root):
    return (root.a.__class__.__name__, root.indent, root.src, ast.dump(root.a, include_attributes=True))


def warm_caches(root):
    """Ask every node the read-only questions whose answers pfst caches (locations, bounding locations, parentheses). A correct
    implementation gives the same results with or without these queries, so running them before every edit only widens what a
    history can expose: stale cached answers become visible to the invariant that is checked afterwards."""
    try:
        nodes = [root] + list(root.walk(True, self_=False))
    except Exception:  # noqa: BLE001
        return
    for f in nodes:
        try:
            f.loc
            f.bloc
            if isinstance(f.a, (ast.expr, ast.pattern)):
                f.pars()
        except Exception:  # noqa: BLE001
            pass


def build(fst, src0, hist, kind='exec', warm=False):
    root = fst.FST(src0, kind)
    for op in hist:
        if warm:
            warm_caches(root)
        E.apply(fst, root, op)
    return root


INTERNAL = ('AttributeError', 'TypeError', 'KeyError', 'AssertionError', 'UnboundLocalError', 'RecursionError',
            'ZeroDivisionError', 'StopIteration', 'NameError')


def bfs(fst, src0, depth, alphas, part, res, on_state, on_raise=None, kind='exec', cid_prefix='', horizon=10.0,
        on_pre=None, enum=None, warm=False):
    """alphas[d] = kwargs of edits.enumerate_ops for level d (0-based). part=(r, M): this shard expands only the
    level-1 states whose index in the deterministic level-1 order is == r mod M (level 1 itself is explored by the
    shard with r == 0; the others only rebuild it)."""
    r, M = part
    frontier = [[]]
    seen = set()
    root0 = fst.FST(src0, kind)
    seen.add(h64(canon(root0)))
    res.states |= seen
    for d in range(depth):
        nxt = []
        count_this = d > 0 or r == 0
        for hist in frontier:
            base = build(fst, src0, hist, kind, warm)
            cur = canon(base)
            ops = list(enum(cur[2], d) if enum else E.enumerate_ops(cur[2], **alphas[d]))
            for op in ops:
                if op.get('leaf') and not count_this:
                    continue  # judged by the counting shard only and never part of the frontier (see below)
                cid = f'{cid_prefix}{"|".join(E.op_id(o) for o in hist + [op])}'
                try:
                    with deadline(horizon):
                        root = build(fst, src0, hist, kind, warm)
                        if canon(root) != cur:
                            raise ReplayDivergence(cid)
                        if warm:
                            warm_caches(root)
                        if on_pre:
                            on_pre(root, hist, op)
                        try:
                            E.apply(fst, root, op)
                            exc = None
                        except CaseTimeout:
                            raise
                        except Exception as e:  # noqa: BLE001
                            exc = e
                except CaseTimeout:
                    if count_this:
                        res.fail(cid, 'hang', f'no result within {horizon}s\nstart={src0!r}', {'op': op['op']},
                                 {'src': src0, 'hist': hist + [op], 'kind': kind},
                                 E.render(src0, hist + [op], kind))
                    continue
                if count_this:
                    res.evals += 1
                    res.transitions += 1
                hist2 = hist + [op]
                if exc is not None:
                    if count_this:
                        res.outcomes['raised:' + exc.__class__.__name__] += 1
                        if on_raise:
                            on_raise(root, cur, hist2, exc, cid)
                    continue
                try:
                    c2 = canon(root)
                except Exception as e:  # noqa: BLE001
                    if count_this:
                        res.fail(cid, 'state-unreadable', repr(e), {'op': op['op']},
                                 {'src': src0, 'hist': hist2, 'kind': kind}, E.render(src0, hist2, kind))
                    continue
                hh = h64(c2)
                expand = True
                if count_this:
                    res.outcomes['ok'] += 1
                    expand = on_state(root, cur, hist2, cid, c2) is not False
                else:
                    from .fstnav import live_vs_parse
                    if live_vs_parse(root, 'Module' if kind == 'exec' else None):
                        expand = False  # a state that already failed C01 is reported once (by the counting shard) and not expanded
                if not expand or op.get('leaf'):
                    continue  # 'leaf' requests (e.g. fault injections that happened to succeed) are judged but not expanded
                if hh not in seen:
                    seen.add(hh)
                    if count_this:
                        res.states.add(hh)
                    nxt.append(hist2)
        if d == 0:
            nxt = [h for i, h in enumerate(nxt) if i % M == r]
        frontier = nxt
        if not frontier:
            break
    bfs.frontier_left = len(frontier)  # 0: every reachable state was expanded (the exploration reached a fixpoint within the depth)
    return seen
