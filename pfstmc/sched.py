"""Stateless exploration of thread interleavings of the real code under a controlled scheduler.

Real threading.Thread objects; exactly one thread holds the baton at any time. Every harness thread installs
sys.settrace; every 'call' (or 'line') event whose code object lives under <repo>/src/fst is a schedule point at which
the running thread consults the schedule and either continues or hands the baton over. pfst has no locks or blocking
calls, so there is nothing to replace; a horizon turns a livelock into a reported failure."""
from __future__ import annotations

import os
import sys
import threading


class Diverged(Exception):
    pass


class Execution:
    def __init__(self, bodies, prefix, granularity='call', srcdir=None, horizon=200000, names=None):
        self.bodies = bodies
        self.n = len(bodies)
        self.prefix = list(prefix)
        self.gran = granularity
        self.srcdir = srcdir or os.path.join(os.environ.get('PFSTMC_REPO', '/repo'), 'src', 'fst')
        self.horizon = horizon
        self.sems = [threading.Semaphore(0) for _ in range(self.n)]
        self.done = [False] * self.n
        self.points = []   # (current thread or None, tuple(enabled), where)
        self.choices = []
        self.obs = [[] for _ in range(self.n)]
        self.errors = [None] * self.n
        self.current = None
        self.finished = threading.Event()
        self.failed = None

    # -- decision at a schedule point; runs in the thread that currently holds the baton ----------------------------
    def _decide(self, cur, where):
        enabled = tuple(t for t in range(self.n) if not self.done[t])
        if not enabled:
            return None
        i = len(self.points)
        if i >= self.horizon:
            self.failed = 'horizon'
            raise SystemExit
        self.points.append((cur if cur is not None and not self.done[cur] else None, enabled, where))
        if i < len(self.prefix):
            c = self.prefix[i]
            if c not in enabled:
                self.failed = f'replay divergence at point {i}: choice {c} not in {enabled}'
                raise Diverged(self.failed)
        else:
            c = cur if (cur is not None and not self.done[cur]) else enabled[0]
        self.choices.append(c)
        return c

    def _point(self, tid, where):
        nxt = self._decide(tid, where)
        if nxt != tid:
            self.current = nxt
            self.sems[nxt].release()
            self.sems[tid].acquire()

    def _trace(self, tid):
        srcdir = self.srcdir
        gran = self.gran

        def local(frame, event, arg):
            if event == 'line':
                self._point(tid, (frame.f_code.co_name, frame.f_lineno))
            return local

        def tracer(frame, event, arg):
            if event != 'call':
                return None
            fn = frame.f_code.co_filename
            if not fn.startswith(srcdir):
                return None
            self._point(tid, (frame.f_code.co_name, frame.f_lineno))
            return local if gran == 'line' else None
        return tracer

    def _run_thread(self, tid):
        self.sems[tid].acquire()  # wait for the baton
        try:
            sys.settrace(self._trace(tid))
            try:
                self.bodies[tid](self.obs[tid])
            finally:
                sys.settrace(None)
        except SystemExit:
            pass
        except Diverged:
            pass
        except BaseException as e:  # noqa: BLE001
            self.errors[tid] = e
            self.obs[tid].append(('EXC', e.__class__.__name__, str(e)[:200]))
        self.done[tid] = True
        if self.failed:
            for t in range(self.n):  # release everybody so the run ends
                self.sems[t].release()
            self.finished.set()
            return
        try:
            nxt = self._decide(tid, ('<exit>', 0))
        except (SystemExit, Diverged):
            nxt = None
        if nxt is None:
            self.finished.set()
            if self.failed:
                for t in range(self.n):
                    self.sems[t].release()
        else:
            self.current = nxt
            self.sems[nxt].release()

    def run(self, timeout=60):
        threads = [threading.Thread(target=self._run_thread, args=(t,), daemon=True) for t in range(self.n)]
        for th in threads:
            th.start()
        try:
            first = self._decide(None, ('<start>', 0))
        except Diverged:
            first = 0
        self.current = first
        self.sems[first].release()
        if not self.finished.wait(timeout):
            self.failed = self.failed or 'timeout'
            self.done = [True] * self.n
            for t in range(self.n):
                self.sems[t].release()
        for th in threads:
            th.join(2)
        return self


def preemptions(points, choices):
    n = 0
    for (cur, enabled, _), c in zip(points, choices):
        if cur is not None and c != cur:
            n += 1
    return n


def explore(make_bodies, bound, check, granularity='call', only_first=None, where_filter=None, max_exec=None, stats=None):
    """Iterative context bounding (CHESS): all schedules with at most `bound` preemptions. make_bodies() builds fresh
    thread bodies (fresh trees) for every execution. only_first=(r, M): only first-deviation points i with i % M == r.
    where_filter(where), if given, restricts the points at which preemptions may happen."""
    n_exec = 0
    stack = [([], 0)]
    while stack:
        prefix, depth = stack.pop()
        x = Execution(make_bodies(), prefix, granularity).run()
        n_exec += 1
        if stats is not None:
            stats['points'] = max(stats.get('points', 0), len(x.points))
        check(x, prefix)
        if max_exec and n_exec >= max_exec:
            break
        if x.failed:
            continue
        for i in range(len(prefix), len(x.points)):
            cur, enabled, where = x.points[i]
            used = preemptions(x.points[:i], x.choices[:i])
            for alt in enabled:
                if alt == x.choices[i]:
                    continue
                cost = 1 if cur is not None else 0
                if used + cost > bound:
                    continue
                if not prefix and only_first is not None and i % only_first[1] != only_first[0]:
                    continue
                if cost and where_filter is not None and not where_filter(where):
                    continue
                stack.append((x.choices[:i] + [alt], depth + 1))
    return n_exec
